#!/bin/sh
# Run once after a fresh restore (offline): verifies that the tools the checks need are present and that
# every specification module parses. Builds nothing else: the checks import ahbicht from /repo/src directly.
set -e
cd "$(dirname "$0")"
java -version >/dev/null 2>&1 || { echo "java missing"; exit 1; }
test -f /opt/veriftools/tla/tla2tools.jar || { echo "tla2tools.jar missing"; exit 1; }
: "${AHBICHT_REPO:=/repo}"
PYTHONPATH="$AHBICHT_REPO/src" /venv/bin/python -c "import ahbicht.content_evaluation, lark, maus, inject, marshmallow, pytz" || { echo "python deps missing"; exit 1; }
mkdir -p .work evidence replays
fail=0
for f in spec/*.tla; do
  out=$(cd spec && java -cp /opt/veriftools/tla/tla2tools.jar:/opt/veriftools/tla/CommunityModules-deps.jar tla2sany.SANY "$(basename "$f")" 2>&1) || true
  if echo "$out" | grep -q -e "Semantic errors" -e "Parse Error" -e "Fatal errors" -e "Could not"; then echo "SANY FAILED: $f"; echo "$out" | tail -20; fail=1; fi
done
[ $fail -eq 0 ] && echo "setup ok: $(ls spec/*.tla | wc -l) specification modules parse"
exit $fail
