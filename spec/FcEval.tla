------------------------------- MODULE FcEval -------------------------------
(* Format-constraint evaluation (property C08): FormatConstraintTransformer + FormatErrorMessageExpressionBuilder
   as a stack machine, one action per transformer callback.  Node = [ok: BOOLEAN, msg: Seq(token)]:
   msg = <<>> means "no error message"; otherwise the sequence of leaf keys whose messages were joined, "XX" standing
   for the fixed text used when both operands of an X are fulfilled.  Independently the module defines the Boolean
   value of a tree, and TLC checks machine = Boolean value and "message iff unfulfilled" for every program. *)
EXTENDS Naturals, Sequences, FiniteSets, TLC
CONSTANTS MaxLeaves, FcKeys

Assignments == [FcKeys -> BOOLEAN]
VARIABLES b,       \* the truth assignment of this run (every assignment is an initial state)
          prog, stack, trees
vars == <<b, prog, stack, trees>>

\* precondition of C08 on single constraints: unfulfilled => carries a message (fulfilled ones carry none)
LeafNode(k, a) == [ok |-> a[k], msg |-> IF a[k] THEN <<>> ELSE <<k>>]

\* FormatErrorMessageExpressionBuilder.land / lor / xor
AndNode(l, r) == [ok |-> l.ok /\ r.ok,
                  msg |-> IF r.ok THEN l.msg ELSE IF l.msg = <<>> THEN r.msg ELSE l.msg \o r.msg]
OrNode(l, r)  == [ok |-> l.ok \/ r.ok,
                  msg |-> IF ~l.ok /\ ~r.ok THEN l.msg \o r.msg ELSE <<>>]
XorNode(l, r) == [ok |-> l.ok # r.ok,
                  msg |-> IF ~l.ok /\ ~r.ok THEN l.msg \o r.msg
                          ELSE IF l.ok /\ r.ok THEN <<"XX">> ELSE <<>>]
OpNode(op, l, r) == CASE op = "and" -> AndNode(l, r) [] op = "or" -> OrNode(l, r) [] op = "xor" -> XorNode(l, r)

NLeaves(p) == Cardinality({i \in 1..Len(p) : p[i][1] = "leaf"})
Init == b \in Assignments /\ prog = <<>> /\ stack = <<>> /\ trees = <<>>
Pop2(s) == SubSeq(s, 1, Len(s) - 2)
Push(k) == /\ NLeaves(prog) < MaxLeaves
           /\ prog' = Append(prog, <<"leaf", "fc", k>>)
           /\ stack' = Append(stack, LeafNode(k, b))
           /\ trees' = Append(trees, <<"leaf", "fc", k>>)
           /\ UNCHANGED b
Compose(op) == /\ Len(stack) >= 2
               /\ prog' = Append(prog, <<op>>)
               /\ stack' = Append(Pop2(stack), OpNode(op, stack[Len(stack) - 1], stack[Len(stack)]))
               /\ trees' = Append(Pop2(trees), <<op, trees[Len(trees) - 1], trees[Len(trees)]>>)
               /\ UNCHANGED b
Next == (\E k \in FcKeys : Push(k)) \/ Compose("and") \/ Compose("or") \/ Compose("xor")
Spec == Init /\ [][Next]_vars

\* documented semantics: the Boolean value of the expression
RECURSIVE Val(_, _)
Val(t, a) == IF t[1] = "leaf" THEN a[t[3]]
             ELSE CASE t[1] = "and" -> Val(t[2], a) /\ Val(t[3], a)
                    [] t[1] = "or"  -> Val(t[2], a) \/ Val(t[3], a)
                    [] t[1] = "xor" -> Val(t[2], a) # Val(t[3], a)

IsBoolean   == \A i \in 1..Len(stack) : stack[i].ok = Val(trees[i], b)
MsgIffNotOk == \A i \in 1..Len(stack) : (stack[i].msg = <<>>) = stack[i].ok
=============================================================================
