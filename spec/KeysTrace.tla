------------------------------ MODULE KeysTrace ------------------------------
(* Code -> spec for Keys.tla on long expressions: {"id", "ops": [[t, n] ...] as records, "rejected": bool, "extract": {rc, hint, fc: [numbers], pkg, time: [numbers]},
   "ncers": number of generated content evaluation results (or -1 if not generated)} - the operands of a random expression in reading order and what the REAL
   extraction returned. Accepted iff the logged extract is Extract(ops) (rejection iff some key is outside the documented ranges) and the number of
   generated results is 3^m * 2^n. *)
EXTENDS Keys, Json, IOUtils
Traces == ndJsonDeserialize(IOEnv.TRACE_FILE)
Diag == IOEnv.VERIF_DIAG = "1"
VARIABLES tid, done
T == Traces[tid]
TInit == tid \in 1..Len(Traces) /\ done = FALSE /\ ops = T.ops /\ obs = <<>>
RECURSIVE Pow3(_)
Pow3(e) == IF e = 0 THEN 1 ELSE 3 * Pow3(e - 1)
RECURSIVE Pow2(_)
Pow2(e) == IF e = 0 THEN 1 ELSE 2 * Pow2(e - 1)
Expected == IF Rejected(T.ops) THEN [rejected |-> TRUE, rc |-> <<>>, hint |-> <<>>, fc |-> <<>>, pkg |-> {}, time |-> {}]
            ELSE LET e == Extract(T.ops) IN [rejected |-> FALSE, rc |-> e.rc, hint |-> e.hint, fc |-> e.fc, pkg |-> e.pkg, time |-> e.time]
Logged == [rejected |-> T.rejected, rc |-> T.extract.rc, hint |-> T.extract.hint, fc |-> T.extract.fc,
           pkg |-> {T.extract.pkg[i] : i \in 1..Len(T.extract.pkg)}, time |-> {T.extract.time[i] : i \in 1..Len(T.extract.time)}]
CersOK == T.ncers = 0 - 1 \/ T.rejected \/ T.ncers = Pow3(Len(T.extract.rc)) * Pow2(Len(T.extract.fc))
TCheck == /\ ~done
          /\ (Diag => PrintT(<<"AT", T.id, 1, Expected>>))
          /\ Expected = Logged /\ CersOK
          /\ done' = TRUE /\ UNCHANGED <<tid, ops, obs>>
Accepted == done => PrintT(<<"ACC", T.id>>)
==============================================================================
