CONSTANTS
 MaxNodes = 3
 SegLabels <- AllLabels
 FreeLabels <- AllLabels
 Pools <- Pools2
 PoolInputs <- PoolInputs3
INIT MCInit
NEXT MCNext
INVARIANT ExactlyOnceInOrder
INVARIANT ParentDominates
INVARIANT Suffix
INVARIANT SollEquivalence
INVARIANT Containment
INVARIANT PoolRules
CHECK_DEADLOCK FALSE
