---------------------------- MODULE Logic4 ----------------------------
(* Four-valued condition logic of ahbicht (property C03; used by every other module).

   The operators are DEFINED from the documentation, not from the code:
     - NEUTRAL ("N": hints, unevaluated format constraints) is the identity element of every operator;
     - UNKNOWN ("K") stands for "FULFILLED or UNFULFILLED, we do not know which"; the result of an operator
       on possibly unknown operands is the best abstraction of the Boolean operator over all
       concretisations: the single Boolean value if all concretisations agree, else UNKNOWN.
   The laws of C03 are checked by TLC as ASSUMEs over the whole (finite) domain, the README rows are
   transcribed below and checked against the definition as well. *)
EXTENDS Naturals, FiniteSets, TLC

V == {"F", "U", "K", "N"}          \* FULFILLED, UNFULFILLED, UNKNOWN, NEUTRAL
B == {"F", "U"}                    \* the Boolean sub-domain
Gamma(v) == IF v = "K" THEN B ELSE {v}      \* concretisations of a non-neutral value

BAnd(a, b) == IF a = "F" /\ b = "F" THEN "F" ELSE "U"
BOr(a, b)  == IF a = "F" \/ b = "F" THEN "F" ELSE "U"
BXor(a, b) == IF a # b THEN "F" ELSE "U"

Lift(Op(_, _), a, b) ==
  IF b = "N" THEN a
  ELSE IF a = "N" THEN b
  ELSE LET R == {Op(x, y) : x \in Gamma(a), y \in Gamma(b)}
       IN IF Cardinality(R) = 1 THEN CHOOSE r \in R : TRUE ELSE "K"

And4(a, b) == Lift(BAnd, a, b)
Or4(a, b)  == Lift(BOr, a, b)
Xor4(a, b) == Lift(BXor, a, b)

Ops == {"and", "or", "xor"}
Apply(op, a, b) == CASE op = "and" -> And4(a, b) [] op = "or" -> Or4(a, b) [] op = "xor" -> Xor4(a, b)
BApply(op, a, b) == CASE op = "and" -> BAnd(a, b) [] op = "or" -> BOr(a, b) [] op = "xor" -> BXor(a, b)

(* README.rst, section "Truth tables", transcribed row by row ("True" = F, "False" = U; the rows the README
   marks "does not make sense" carry no value and are omitted; the README lists (A,B) only one way round). *)
ReadmeRows == {
  <<"and", "N", "F", "F">>, <<"and", "N", "U", "U">>, <<"and", "N", "N", "N">>, <<"and", "K", "F", "K">>,
  <<"and", "K", "U", "U">>, <<"and", "K", "K", "K">>, <<"and", "K", "N", "K">>,
  <<"or", "N", "N", "N">>, <<"or", "K", "F", "F">>, <<"or", "K", "U", "K">>, <<"or", "K", "K", "K">>,
  <<"xor", "N", "N", "N">>, <<"xor", "K", "F", "K">>, <<"xor", "K", "U", "K">>, <<"xor", "K", "K", "K">> }

\* ------------------------------------------------------------------ the laws of C03
Total       == \A op \in Ops : \A a, b \in V : Apply(op, a, b) \in V
Commutative == \A op \in Ops : \A a, b \in V : Apply(op, a, b) = Apply(op, b, a)
Associative == \A op \in Ops : \A a, b, c \in V : Apply(op, Apply(op, a, b), c) = Apply(op, a, Apply(op, b, c))
Identity    == \A op \in Ops : \A a \in V : Apply(op, a, "N") = a /\ Apply(op, "N", a) = a
Boolean     == \A op \in Ops : \A a, b \in B : Apply(op, a, b) = BApply(op, a, b)
Readme      == \A r \in ReadmeRows : Apply(r[1], r[2], r[3]) = r[4] /\ Apply(r[1], r[3], r[2]) = r[4]
NonNeutral  == V \ {"N"}
\* sound: a definite result is the result for every replacement of K by F/U
Sound       == \A op \in Ops : \A a, b \in NonNeutral :
                  Apply(op, a, b) \in B => \A x \in Gamma(a), y \in Gamma(b) : BApply(op, x, y) = Apply(op, a, b)
\* tight: the result is K only if two replacements disagree
Tight       == \A op \in Ops : \A a, b \in NonNeutral :
                  Apply(op, a, b) = "K" => \E x1, x2 \in Gamma(a), y1, y2 \in Gamma(b) : BApply(op, x1, y1) # BApply(op, x2, y2)
\* soundness also holds through nesting (triples): refining the inputs of a definite nested result keeps it
SoundNested == \A op1, op2 \in Ops : \A a, b, c \in NonNeutral :
                  LET r == Apply(op2, Apply(op1, a, b), c)
                  IN r \in B => \A x \in Gamma(a), y \in Gamma(b), z \in Gamma(c) : BApply(op2, BApply(op1, x, y), z) = r

ASSUME Total
ASSUME Commutative
ASSUME Associative
ASSUME Identity
ASSUME Boolean
ASSUME Readme
ASSUME Sound
ASSUME Tight
ASSUME SoundNested
=======================================================================
