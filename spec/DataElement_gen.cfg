CONSTANTS
 MaxParts = 3
SPECIFICATION GenSpec
INVARIANT FormatOfDecidingPart
INVARIANT SuffixFromInput
INVARIANT SegmentDominates
INVARIANT SollIsRewriting
INVARIANT ErrorOnlyWhenUndeterminedMust
INVARIANT GatherDiscipline
INVARIANT LaterPartsIrrelevant
CHECK_DEADLOCK FALSE
