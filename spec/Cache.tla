------------------------------- MODULE Cache -------------------------------
(* The parse cache with object aliasing (property C11): parsing is a pure function of the string whatever happened before.

   Both parsers are lru_cache'd functions wrapped by `tree_copy`. What matters is which mutable LIST CELLS a tree handed to a
   caller shares with the cached tree. Abstractly a parse tree is a root cell (the root's children list) and two kid cells
   (the children lists of the root's two children); an object is the triple of cell ids; the heap maps cell ids to contents.
     Parse(s)   hit: hand out Copy(cache[s]);  miss: build a pristine object, cache it, hand out Copy of it
     Edit(h,w,k) the caller edits cell w (root / kid 1 / kid 2) of a tree handed out earlier: append, remove, replace
     Flood      so many other strings are parsed that every entry is evicted (how the harness realises eviction)
   CopyMode = "deep" is the REQUIRED design (every cell fresh). The other modes exist to show that the invariants are not
   vacuous: "shallow" = lark's Tree.copy() (nothing fresh below the root object), "kids_shared" = fresh root list but the
   children's lists shared, "none_on_miss" = the cached instance itself is returned on a miss. *)
EXTENDS Naturals, Sequences, FiniteSets, TLC
CONSTANTS Strings, MaxSteps, CopyMode, MaxFloods

Pristine == [root |-> <<"c1", "c2">>, k1 |-> <<"t">>, k2 |-> <<"t">>]     \* contents of a freshly parsed tree
Where == {"root", "k1", "k2"}
Kinds == {"append", "remove", "replace"}

VARIABLES cache,     \* [subset of Strings -> object]      object = [root, k1, k2 |-> cell id]
          heap,      \* [cell id -> content]
          handed,    \* Seq(object): trees handed out to callers, in order
          last,      \* view of the tree returned by the most recent Parse (<<>> before)
          hist,      \* history of actions (replay input)
          floods
vars == <<cache, heap, handed, last, hist, floods>>

NextId == Cardinality(DOMAIN heap) + 1
View(o) == [root |-> heap[o.root], k1 |-> heap[o.k1], k2 |-> heap[o.k2]]

Init == cache = <<>> /\ heap = <<>> /\ handed = <<>> /\ last = <<>> /\ hist = <<>> /\ floods = 0

\* allocate fresh cells for the three contents c; returns <<new heap, object>>
Alloc(h, c) == LET n == Cardinality(DOMAIN h) IN
               << [i \in 1..(n + 3) |-> IF i <= n THEN h[i] ELSE IF i = n + 1 THEN c.root ELSE IF i = n + 2 THEN c.k1 ELSE c.k2],
                  [root |-> n + 1, k1 |-> n + 2, k2 |-> n + 3] >>
\* Copy(o) under the copy mode: <<new heap, object handed out>>
Copy(h, o, isMiss) ==
  CASE CopyMode = "deep"         -> Alloc(h, [root |-> h[o.root], k1 |-> h[o.k1], k2 |-> h[o.k2]])
    [] CopyMode = "shallow"      -> <<h, o>>
    [] CopyMode = "kids_shared"  -> LET n == Cardinality(DOMAIN h) IN
                                    << [i \in 1..(n + 1) |-> IF i <= n THEN h[i] ELSE h[o.root]], [root |-> n + 1, k1 |-> o.k1, k2 |-> o.k2] >>
    [] CopyMode = "none_on_miss" -> IF isMiss THEN <<h, o>> ELSE Alloc(h, [root |-> h[o.root], k1 |-> h[o.k1], k2 |-> h[o.k2]])

Parse(s) ==
  /\ Len(hist) < MaxSteps
  /\ hist' = Append(hist, <<"parse", s>>)
  /\ UNCHANGED floods
  /\ IF s \in DOMAIN cache
     THEN LET r == Copy(heap, cache[s], FALSE) IN
          /\ heap' = r[1] /\ handed' = Append(handed, r[2]) /\ UNCHANGED cache
          /\ last' = [root |-> r[1][r[2].root], k1 |-> r[1][r[2].k1], k2 |-> r[1][r[2].k2]]
     ELSE LET a == Alloc(heap, Pristine)
              r == Copy(a[1], a[2], TRUE) IN
          /\ heap' = r[1] /\ handed' = Append(handed, r[2])
          /\ cache' = [x \in DOMAIN cache \cup {s} |-> IF x = s THEN a[2] ELSE cache[x]]
          /\ last' = [root |-> r[1][r[2].root], k1 |-> r[1][r[2].k1], k2 |-> r[1][r[2].k2]]

Edited(c, k) == CASE k = "append" -> Append(c, "J")
                  [] k = "remove" -> IF c = <<>> THEN c ELSE SubSeq(c, 1, Len(c) - 1)
                  [] k = "replace" -> IF c = <<>> THEN c ELSE [c EXCEPT ![1] = "J"]
Edit(h, w, k) ==
  /\ Len(hist) < MaxSteps
  /\ h \in 1..Len(handed) /\ h > Len(handed) - 2               \* the two most recently handed-out trees
  /\ LET cell == handed[h][w] IN heap' = [heap EXCEPT ![cell] = Edited(heap[cell], k)]
  /\ hist' = Append(hist, <<"edit", h, w, k>>)
  /\ UNCHANGED <<cache, handed, last, floods>>

Flood == /\ Len(hist) < MaxSteps /\ floods < MaxFloods /\ cache # <<>>
         /\ cache' = <<>> /\ floods' = floods + 1
         /\ hist' = Append(hist, <<"flood">>)
         /\ UNCHANGED <<heap, handed, last>>

Next == (\E s \in Strings : Parse(s)) \/ (\E h \in 1..Len(handed), w \in Where, k \in Kinds : Edit(h, w, k)) \/ Flood
Spec == Init /\ [][Next]_vars

\* C11: the tree returned by a parse is the pristine tree, whatever happened before
Pure == last = <<>> \/ last = Pristine
\* and nothing a caller does reaches the cache
CachePristine == \A s \in DOMAIN cache : View(cache[s]) = Pristine
=============================================================================
