------------------------------- MODULE Eval -------------------------------
(* Requirement-constraint evaluation of a condition expression (properties C04, C05, C06, C07).

   The code evaluates the parse tree bottom-up with a Lark Transformer, i.e. as a stack machine with one
   callback per node (`condition`, `and_composition`, `or_composition`, `xor_composition`,
   `then_also_composition`). This module has
     (1) that machine: one action per callback, operating on a stack of evaluated nodes
         (the pure node operators AndNode/OrXorNode/ThenNode are reused by EvalTrace.tla), and
     (2) independently, the DOCUMENTED semantics as recursive operators on syntax trees:
         Den (four-valued compositional value), SValid (structural validity, C06), FcRead (direct reading of
         the format constraints, C07),
   and TLC checks that (1) and (2) agree in every reachable state, plus the metamorphic laws of C05 on every
   complete expression. Programs are built leaf by leaf, so breadth-first search enumerates EVERY expression
   (as a postfix program) up to MaxLeaves leaves, under every assignment (initial states). *)
EXTENDS Naturals, Sequences, FiniteSets, TLC, Logic4

CONSTANTS MaxLeaves,     \* bound on the number of leaves of an expression
          RcKeys,        \* requirement-constraint keys (numbers 1..499)
          HintKeys,      \* hint keys (500..900)
          FcKeys,        \* format-constraint keys (901..999)
          Laws           \* TRUE: also check the (more expensive) metamorphic laws of C05

Nil  == "nil"
NilT == <<>>                                   \* "absent" for tuple-valued fields
Assignments   == [RcKeys -> {"F", "U", "K"}]   \* RC assignments never contain NEUTRAL (quantifier of C04-C07)
FcAssignments == [FcKeys -> BOOLEAN]

(* ------------------------------------------------------------------------------------------------------
   Evaluated nodes.  [st: V, kind: "rc"|"hint"|"fc"|"comp", fcx: FC-expression AST, hint: Seq(hint keys)]
   fcx:  NilT | <<"fc", k>> | <<op, x, y>>  with op in {"and","or","xor"}  (what the code keeps as a string)
   hint: the hint keys whose texts the node carries, in order
   htx:  how the texts are worded (HintExpressionBuilder; no listed property fixes the wording - compared only by ./check-extras):
         <<"none">> | <<"h", key>> | <<"und", x, y>> | <<"oder", x, y>> | <<"entweder", x, y>>   ("X und Y", "X oder Y", "Entweder (X) oder (Y)")
   ------------------------------------------------------------------------------------------------------ *)
HNone == <<"none">>
HJoin(w, x, y) == IF y = HNone THEN x ELSE IF x = HNone THEN y ELSE <<w, x, y>>
RECURSIVE HKeys(_)
HKeys(x) == IF x = HNone THEN <<>> ELSE IF x[1] = "h" THEN <<x[2]>> ELSE HKeys(x[2]) \o HKeys(x[3])
LeafNode(kind, key, a) ==
  [st   |-> IF kind = "rc" THEN a[key] ELSE "N",
   kind |-> kind,
   fcx  |-> IF kind = "fc" THEN <<"fc", key>> ELSE NilT,
   hint |-> IF kind = "hint" THEN <<key>> ELSE <<>>,
   htx  |-> IF kind = "hint" THEN <<"h", key>> ELSE HNone]

\* FormatConstraintExpressionBuilder._connect: parts without format constraints have no effect
Conj(op, x, y) == IF x = NilT THEN y ELSE IF y = NilT THEN x ELSE <<op, x, y>>

AndNode(l, r) ==
  LET s == And4(l.st, r.st) IN
  [st |-> s, kind |-> "comp", fcx |-> Conj("and", l.fcx, r.fcx),
   hint |-> IF s = "U" THEN <<>> ELSE l.hint \o r.hint,      \* hints are kept unless the branch is unfulfilled
   htx  |-> IF s = "U" THEN HNone ELSE HJoin("und", l.htx, r.htx)]

\* _or_xor_composition raises InvalidExpressionError
OrXorInvalid(l, r) == \/ (l.kind = "hint" /\ r.kind = "fc")
                      \/ (l.kind = "fc" /\ r.kind = "hint")
                      \/ ((l.st = "N") # (r.st = "N"))

OrXorNode(op, l, r) ==
  [st |-> Apply(op, l.st, r.st), kind |-> "comp", fcx |-> Conj(op, l.fcx, r.fcx), hint |-> l.hint \o r.hint,
   htx |-> HJoin(IF op = "or" THEN "oder" ELSE "entweder", l.htx, r.htx)]

\* then_also_composition: the format constraint is the left operand if that is an FC leaf, else the right one
ThenFc(l, r)    == IF l.kind = "fc" THEN l ELSE r
ThenOther(l, r) == IF l.kind = "fc" THEN r ELSE l
ThenSupported(l, r) == ThenOther(l, r).st # "N" \/ ThenOther(l, r).kind = "hint"
ThenNode(l, r) ==
  LET fc == ThenFc(l, r)
      ot == ThenOther(l, r)
  IN IF ot.st # "N"
     THEN [st |-> ot.st, kind |-> "comp",
           \* the attached constraint takes part only if the partner is FULFILLED; the partner's own
           \* constraints are kept in any case (repaired in /repo by "fix: a format constraint attached ...")
           fcx |-> IF ot.st = "F" THEN Conj("and", fc.fcx, ot.fcx) ELSE ot.fcx,
           hint |-> <<>>, htx |-> HNone]        \* the code drops the partner's hint here (DESIGN 7.7b; no property)
     ELSE [st |-> "N", kind |-> "comp", fcx |-> Conj("and", fc.fcx, ot.fcx), hint |-> ot.hint, htx |-> ot.htx]

\* requirement_constraint_evaluation: state of the root -> (fulfilled, is_conditional)
Outcome(st) == CASE st = "F" -> <<"true", "true">>
                 [] st = "N" -> <<"true", "false">>
                 [] st = "U" -> <<"false", "true">>
                 [] st = "K" -> <<"none", "none">>

(* ------------------------------------------------------------------------------------------------------
   The machine
   ------------------------------------------------------------------------------------------------------ *)
VARIABLES asg,     \* the RC assignment of this run (fixed; every assignment is an initial state)
          prog,    \* history: the postfix program fed so far; also the replay input
          stack,   \* Seq(Node): evaluated nodes
          trees,   \* parallel stack of syntax trees  <<"leaf", kind, key>> | <<op, l, r>>
          err      \* Nil | "invalid" | "unsupported"
vars == <<asg, prog, stack, trees, err>>

NLeaves(p) == Cardinality({i \in 1..Len(p) : p[i][1] = "leaf"})
Init == asg \in Assignments /\ prog = <<>> /\ stack = <<>> /\ trees = <<>> /\ err = Nil

Top2 == Len(stack) >= 2
L  == stack[Len(stack) - 1]
R  == stack[Len(stack)]
TL == trees[Len(trees) - 1]
TR == trees[Len(trees)]
Pop2(s) == SubSeq(s, 1, Len(s) - 2)

Push(kind, key) ==
  /\ err = Nil /\ NLeaves(prog) < MaxLeaves
  /\ prog' = Append(prog, <<"leaf", kind, key>>)
  /\ stack' = Append(stack, LeafNode(kind, key, asg))
  /\ trees' = Append(trees, <<"leaf", kind, key>>)
  /\ UNCHANGED <<asg, err>>

AndA ==
  /\ err = Nil /\ Top2
  /\ prog' = Append(prog, <<"and">>)
  /\ stack' = Append(Pop2(stack), AndNode(L, R))
  /\ trees' = Append(Pop2(trees), <<"and", TL, TR>>)
  /\ UNCHANGED <<asg, err>>

OrXorA(op) ==
  /\ err = Nil /\ Top2
  /\ prog' = Append(prog, <<op>>)
  /\ trees' = Append(Pop2(trees), <<op, TL, TR>>)
  /\ UNCHANGED asg
  /\ (IF OrXorInvalid(L, R)
      THEN err' = "invalid" /\ stack' = Pop2(stack)
      ELSE err' = err /\ stack' = Append(Pop2(stack), OrXorNode(op, L, R)))

\* the generator only builds juxtapositions in which at least one side is a single format-constraint key
ThenA ==
  /\ err = Nil /\ Top2
  /\ (L.kind = "fc" \/ R.kind = "fc")
  /\ prog' = Append(prog, <<"then">>)
  /\ trees' = Append(Pop2(trees), <<"then", TL, TR>>)
  /\ UNCHANGED asg
  /\ (IF ThenSupported(L, R)
      THEN err' = err /\ stack' = Append(Pop2(stack), ThenNode(L, R))
      ELSE err' = "unsupported" /\ stack' = Pop2(stack))

Next == \/ \E k1 \in RcKeys : Push("rc", k1)
        \/ \E k2 \in HintKeys : Push("hint", k2)
        \/ \E k3 \in FcKeys : Push("fc", k3)
        \/ AndA \/ OrXorA("or") \/ OrXorA("xor") \/ ThenA

Spec == Init /\ [][Next]_vars

(* ------------------------------------------------------------------------------------------------------
   The documented semantics on syntax trees (independent of the machine)
   ------------------------------------------------------------------------------------------------------ *)
IsLeaf(t)        == t[1] = "leaf"
IsLeafKind(t, k) == t[1] = "leaf" /\ t[2] = k

RECURSIVE HasRC(_)
HasRC(t) == IF IsLeaf(t) THEN t[2] = "rc" ELSE HasRC(t[2]) \/ HasRC(t[3])

\* the operand a juxtaposition attaches its format constraint to / the attached format constraint
Partner(t)  == IF IsLeafKind(t[2], "fc") THEN t[3] ELSE t[2]
Attached(t) == IF IsLeafKind(t[2], "fc") THEN t[2] ELSE t[3]

\* domain of C04-C07: a juxtaposition attaches a single FC key to a hint or to an operand containing an RC
RECURSIVE InDom(_)
InDom(t) == IF IsLeaf(t) THEN TRUE
            ELSE /\ InDom(t[2]) /\ InDom(t[3])
                 /\ (t[1] = "then" => /\ (IsLeafKind(t[2], "fc") \/ IsLeafKind(t[3], "fc"))
                                      /\ (IsLeafKind(Partner(t), "hint") \/ HasRC(Partner(t))))

\* C04: recursive application of the four-valued operators; hints and FCs are NEUTRAL; juxtaposition copies the partner
RECURSIVE Den(_, _)
Den(t, a) == IF IsLeaf(t) THEN (IF t[2] = "rc" THEN a[t[3]] ELSE "N")
             ELSE IF t[1] = "then" THEN Den(Partner(t), a)
             ELSE Apply(t[1], Den(t[2], a), Den(t[3], a))

\* C06: validity is structural
RECURSIVE SValid(_)
SValid(t) == IF IsLeaf(t) THEN TRUE
             ELSE /\ SValid(t[2]) /\ SValid(t[3])
                  /\ (t[1] \in {"or", "xor"} =>
                        /\ HasRC(t[2]) = HasRC(t[3])        \* never "can only be NEUTRAL" against "carries an RC"
                        /\ ~(IsLeafKind(t[2], "hint") /\ IsLeafKind(t[3], "fc"))
                        /\ ~(IsLeafKind(t[2], "fc") /\ IsLeafKind(t[3], "hint")))

\* C07: three-valued direct reading of the format constraints ("T", "F", "A" = contributes nothing)
B3(x) == IF x THEN "T" ELSE "F"
Comb(op, x, y) == IF x = "A" THEN y ELSE IF y = "A" THEN x
                  ELSE CASE op = "and" -> B3(x = "T" /\ y = "T")
                         [] op = "or"  -> B3(x = "T" \/ y = "T")
                         [] op = "xor" -> B3(x # y)
RECURSIVE FcRead(_, _, _)
FcRead(t, a, b) ==
  IF IsLeaf(t) THEN (IF t[2] = "fc" THEN B3(b[t[3]]) ELSE "A")
  ELSE IF t[1] = "then"
       THEN IF Den(Partner(t), a) = "F" \/ IsLeafKind(Partner(t), "hint")
            THEN Comb("and", FcRead(Attached(t), a, b), FcRead(Partner(t), a, b))
            ELSE FcRead(Partner(t), a, b)
       ELSE Comb(t[1], FcRead(t[2], a, b), FcRead(t[3], a, b))

RECURSIVE FcVal(_, _)     \* value of a collected FC expression
FcVal(x, b) == IF x = NilT THEN "A"
               ELSE IF x[1] = "fc" THEN B3(b[x[2]])
               ELSE Comb(x[1], FcVal(x[2], b), FcVal(x[3], b))
RECURSIVE FcxKeys(_)
FcxKeys(x) == IF x = NilT THEN {} ELSE IF x[1] = "fc" THEN {x[2]} ELSE FcxKeys(x[2]) \cup FcxKeys(x[3])
RECURSIVE TreeFcKeys(_)
TreeFcKeys(t) == IF IsLeaf(t) THEN (IF t[2] = "fc" THEN {t[3]} ELSE {}) ELSE TreeFcKeys(t[2]) \cup TreeFcKeys(t[3])
RECURSIVE FcxWellFormed(_)
FcxWellFormed(x) == \/ x = NilT
                    \/ (Len(x) = 2 /\ x[1] = "fc" /\ x[2] \in FcKeys)
                    \/ (Len(x) = 3 /\ x[1] \in {"and", "or", "xor"} /\ x[2] # NilT /\ x[3] # NilT
                        /\ FcxWellFormed(x[2]) /\ FcxWellFormed(x[3]))

(* ------------------------------------------------------------------------------------------------------
   Invariants: machine = documented semantics (checked in every reachable state, i.e. for every
   expression up to the bound under every assignment)
   ------------------------------------------------------------------------------------------------------ *)
TypeOK == /\ Len(stack) = Len(trees) \/ (err # Nil /\ Len(stack) = Len(trees) - 1)
          /\ \A i \in 1..Len(stack) : stack[i].st \in V
\* the wording carries exactly the hints of the node, in order
HintTextCarriesTheHints == \A i \in 1..Len(stack) : HKeys(stack[i].htx) = stack[i].hint

\* C04
MachineAgreesWithDen == (err = Nil) => \A i \in 1..Len(stack) : stack[i].st = Den(trees[i], asg)
NeutralIffNoRC       == (err = Nil) => \A i \in 1..Len(stack) : (stack[i].st = "N") = ~HasRC(trees[i])

\* C06 (asg ranges over all assignments, SValid does not mention it => invalid under one <=> under all)
ValidityIsStructural ==
  /\ (err = "invalid") => ~SValid(trees[Len(trees)])
  /\ (err = Nil) => \A i \in 1..Len(trees) : SValid(trees[i])
  /\ (err = "unsupported") => ~InDom(trees[Len(trees)])
  /\ (err = Nil) => \A i \in 1..Len(trees) : InDom(trees[i])

\* C07
FcMeaning == (err = Nil) => \A i \in 1..Len(stack) :
               /\ FcxWellFormed(stack[i].fcx)
               /\ FcxKeys(stack[i].fcx) \subseteq TreeFcKeys(trees[i])
               /\ \A b \in FcAssignments : FcVal(stack[i].fcx, b) = FcRead(trees[i], asg, b)

(* ------------------------------------------------------------------------------------------------------
   C05: metamorphic laws, on every complete valid expression, at every position
   ------------------------------------------------------------------------------------------------------ *)
RECURSIVE Paths(_)
Paths(t) == IF IsLeaf(t) THEN {<<>>}
            ELSE {<<>>} \cup {<<2>> \o p : p \in Paths(t[2])} \cup {<<3>> \o p : p \in Paths(t[3])}
RECURSIVE Sub(_, _)
Sub(t, p) == IF p = <<>> THEN t ELSE Sub(t[Head(p)], Tail(p))
RECURSIVE Repl(_, _, _)
Repl(t, p, n) == IF p = <<>> THEN n ELSE [t EXCEPT ![Head(p)] = Repl(t[Head(p)], Tail(p), n)]
Parent(p) == SubSeq(p, 1, Len(p) - 1)
\* positions onto which a hint may be and-ed: the whole expression or any operand of U/O/X
HintAndPositions(t) == {p \in Paths(t) : p = <<>> \/ Sub(t, Parent(p))[1] \in {"and", "or", "xor"}}

Complete == err = Nil /\ Len(stack) = 1
T0 == trees[1]

LawHintAnd == Complete =>
  \A p \in HintAndPositions(T0), h \in HintKeys, side \in {"l", "r"} :
     LET hl == <<"leaf", "hint", h>>
         t2 == Repl(T0, p, IF side = "r" THEN <<"and", Sub(T0, p), hl>> ELSE <<"and", hl, Sub(T0, p)>>)
     IN SValid(t2) /\ InDom(t2) /\ Den(t2, asg) = Den(T0, asg)

LawAttachFc == Complete =>
  \A p \in {q \in Paths(T0) : HasRC(Sub(T0, q))}, f \in FcKeys, side \in {"l", "r"} :
     LET fl == <<"leaf", "fc", f>>
         t2 == Repl(T0, p, IF side = "r" THEN <<"then", Sub(T0, p), fl>> ELSE <<"then", fl, Sub(T0, p)>>)
     IN SValid(t2) /\ InDom(t2) /\ Den(t2, asg) = Den(T0, asg)

LawSwap == Complete =>
  \A p \in {q \in Paths(T0) : Sub(T0, q)[1] \in {"and", "or", "xor"}} :
     LET s  == Sub(T0, p)
         t2 == Repl(T0, p, <<s[1], s[3], s[2]>>)
     IN SValid(t2) /\ InDom(t2) /\ Den(t2, asg) = Den(T0, asg)

Refinements(a) == {a2 \in [RcKeys -> {"F", "U"}] : \A k \in RcKeys : a[k] # "K" => a2[k] = a[k]}
LawDefiniteIsStable == Complete =>
  (Den(T0, asg) # "K" => \A a2 \in Refinements(asg) : Den(T0, a2) = Den(T0, asg))
\* and tightness at expression level does NOT hold in general (Kleene logic is not exact), so it is not claimed

C05Laws == Laws => (LawHintAnd /\ LawAttachFc /\ LawSwap /\ LawDefiniteIsStable)
=============================================================================
