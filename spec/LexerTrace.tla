------------------------------ MODULE LexerTrace ------------------------------
(* Code -> spec at character level: {"id", "chars": [character classes], "verdict": "accept" | "reject"} - the verdict the
   real condition parser gave for a (mutated) expression. The Lexer machine is run on the logged classes; the logged
   verdict must be the machine's: accept iff no character is refused and the final state is accepting. *)
EXTENDS Lexer, Json, IOUtils
Traces == ndJsonDeserialize(IOEnv.TRACE_FILE)
Diag == IOEnv.VERIF_DIAG = "1"
VARIABLES tid, i, stuck
T == Traces[tid]
TInit == tid \in 1..Len(Traces) /\ i = 1 /\ stuck = FALSE /\ Init /\ obs = <<>>
TRead == /\ ~stuck /\ i <= Len(T.chars)
         /\ IF CanRead(T.chars[i]) THEN Read(T.chars[i]) /\ stuck' = FALSE ELSE stuck' = TRUE /\ UNCHANGED vars
         /\ i' = i + 1 /\ UNCHANGED <<tid, obs>>
AtEnd == stuck \/ i = Len(T.chars) + 1
Verdict == IF ~stuck /\ Accepting THEN "accept" ELSE "reject"
Accepted == AtEnd => ( /\ (Diag => PrintT(<<"AT", T.id, i, Verdict>>))
                       /\ (Verdict = T.verdict => PrintT(<<"ACC", T.id>>)) )
===============================================================================
