CONSTANTS
 MaxParts = 3
INIT Init
NEXT Next
INVARIANT SelectedIsFirstFulfilledElseLast
INVARIANT LaterPartsIrrelevant
INVARIANT Shape
CHECK_DEADLOCK FALSE
