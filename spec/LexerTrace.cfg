CONSTANTS
 MaxChars = 100000
INIT TInit
NEXT TRead
CONSTRAINT Accepted
CHECK_DEADLOCK FALSE
