---------------------------- MODULE CondParserMC ----------------------------
(* CondParser plus an observation variable (a function of the other variables, so it adds no states) that puts what the
   replay needs into every dumped state: is the prefix a complete expression, its grouping, and the tokens that may follow. *)
EXTENDS CondParser
VARIABLE obs
Obs == [acc |-> Accepting, res |-> IF Accepting THEN Result ELSE <<>>, en |-> Enabled]
MCInit == Init /\ obs = Obs
MCNext == Next /\ obs' = Obs'
=============================================================================
