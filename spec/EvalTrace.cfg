CONSTANTS
 MaxLeaves = 100000
 RcKeys = {1}
 HintKeys = {501}
 FcKeys = {901}
 Laws = FALSE
INIT TInit
NEXT TNext
CONSTRAINT Accepted
INVARIANT MachineAgreesWithDen
INVARIANT ValidityIsStructural
CHECK_DEADLOCK FALSE
