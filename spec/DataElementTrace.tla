--------------------------- MODULE DataElementTrace ---------------------------
(* Code -> spec for DataElement.tla: one recorded run of validate_data_element_freetext per trace.
     {"id", "parts": [{ind, bare, st, fc} ...], "inp", "seg", "soll",
      "events": [{"ev": "rc", "i": n} | {"ev": "fc", "i": n} ... , {"ev": "done", "status", "fill", "fmt", "msg"}]}
   parts: indicator and, per part, the state / format verdict its condition expression has ON ITS OWN (established with the real evaluators before the run);
   events: completion of the requirement evaluation ("rc") and of the format evaluation ("fc") of part n in the order in which the real code finished them
   (the evaluators yield a seeded random number of times, so the gather completes in many orders), then what the call returned ("ERROR" for NotImplementedError).
   The run is accepted iff it is a behaviour of the staged machine: every event is an enabled EvalRc / EvalFc step (format never before requirement of the same
   part, no part twice), Select is enabled when the result arrives (every part evaluated), and the result is ResultOf. *)
EXTENDS DataElement, Json, IOUtils
Traces == ndJsonDeserialize(IOEnv.TRACE_FILE)
Diag == IOEnv.VERIF_DIAG = "1"
VARIABLES tid, l
T == Traces[tid]
E == T.events[l]
TInit == /\ tid \in 1..Len(Traces) /\ l = 1
         /\ parts = T.parts /\ closed = TRUE /\ inp = T.inp /\ seg = T.seg /\ soll = T.soll
         /\ stage = "evaluating" /\ rcdone = {} /\ fcdone = {} /\ out = <<>>
Step == /\ l <= Len(T.events) /\ l' = l + 1 /\ UNCHANGED tid
        /\ (Diag => PrintT(<<"AT", T.id, l, rcdone, fcdone>>))
        /\ \/ E.ev = "rc" /\ EvalRc(E.i)
           \/ E.ev = "fc" /\ EvalFc(E.i)
           \/ /\ E.ev = "done" /\ Select
              /\ out'.status = E.status
              /\ (E.status # "ERROR" => out'.fill = E.fill /\ out'.fmt = E.fmt /\ out'.msg = E.msg)
Accepted == (l = Len(T.events) + 1 /\ stage = "done") => PrintT(<<"ACC", T.id>>)
===============================================================================
