CONSTANTS
 MaxTok = 6
INIT MCInit
NEXT MCNext
INVARIANT PartsWellFormed
INVARIANT ViabilityIsExact
INVARIANT SplitIsLossless
INVARIANT OnePrefixPart
INVARIANT BareOnlyLast
CHECK_DEADLOCK FALSE
