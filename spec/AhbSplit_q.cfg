CONSTANTS
 MaxTok = 6
 Alphabet = {"M", "S", "K", "a", "(", ")", "U", "X", "O"}
INIT MCInit
NEXT MCNext
INVARIANT PartsWellFormed
INVARIANT ViabilityIsExact
INVARIANT SplitIsLossless
INVARIANT OnePrefixPart
INVARIANT BareOnlyLast
CHECK_DEADLOCK FALSE
