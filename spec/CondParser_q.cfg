CONSTANTS
 MaxTok = 7
INIT Init
NEXT Next
INVARIANT AcceptsExactlyWellFormed
INVARIANT MachineAgreesWithSplit
INVARIANT YieldIsInput
INVARIANT PrecedenceStructure
INVARIANT RedundantBrackets
CHECK_DEADLOCK FALSE
