INIT Init
NEXT Next
CONSTRAINT Accepted
CHECK_DEADLOCK FALSE
