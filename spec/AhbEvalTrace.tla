----------------------------- MODULE AhbEvalTrace -----------------------------
(* Code -> spec for AhbEval.tla on long AHB expressions: {"id", "parts": [{ind, bare, st} ...], "result": {index?, ind, fulfilled}} - the parts of a random AHB
   expression (indicator, bare or not, four-valued state of the part's own condition expression as evaluated by the real code on its own) and what the REAL
   evaluate_ahb_expression_tree reported. Accepted iff indicator and outcome are those of the first fulfilled part, else of the last. *)
EXTENDS AhbEval, Json, IOUtils
Traces == ndJsonDeserialize(IOEnv.TRACE_FILE)
Diag == IOEnv.VERIF_DIAG = "1"
VARIABLES tid, done
T == Traces[tid]
TInit == tid \in 1..Len(Traces) /\ done = FALSE /\ parts = T.parts /\ closed = TRUE /\ result = <<>>
Expected == LET r == ResultOf(T.parts) IN [ind |-> r.ind, fulfilled |-> r.fulfilled]
TCheck == /\ ~done
          /\ (Diag => PrintT(<<"AT", T.id, 1, Expected>>))
          /\ Expected = [ind |-> T.result.ind, fulfilled |-> T.result.fulfilled]
          /\ done' = TRUE /\ UNCHANGED <<tid, parts, closed, result>>
Accepted == done => PrintT(<<"ACC", T.id>>)
===============================================================================
