--------------------------- MODULE FcResultTrace ---------------------------
(* Code -> spec on the level of RESULTS for C08 (second level of the trace validation, see EvalResultTrace): a run whose recorded callbacks are
   not a behaviour of FcEval.tla's machine - or that does not use callbacks - is decided on what C08 talks about. Every line of $TRACE_FILE is
     {"id", "b": [[key, bool], ...], "tree": [ "leaf", "fc", key ] | [op, l, r], "final": {"ok": bool, "has_msg": bool}}
   (every unfulfilled single constraint carries a message: the precondition of C08 is established by the harness) and it is accepted iff the
   value is the Boolean value of the expression under b and a message is present iff the result is unfulfilled. *)
EXTENDS FcEval, Json, IOUtils
Traces == ndJsonDeserialize(IOEnv.TRACE_FILE)
Diag == IOEnv.VERIF_DIAG = "1"
VARIABLES tid, done
T == Traces[tid]
BOf(t) == LET ps == t.b IN [k \in {ps[j][1] : j \in 1..Len(ps)} |-> ps[CHOOSE j \in 1..Len(ps) : ps[j][1] = k][2]]
RECURSIVE BoolVal(_, _)
BoolVal(t, bb) == IF t[1] = "leaf" THEN bb[t[3]]
                  ELSE CASE t[1] = "and" -> BoolVal(t[2], bb) /\ BoolVal(t[3], bb)
                         [] t[1] = "or"  -> BoolVal(t[2], bb) \/ BoolVal(t[3], bb)
                         [] t[1] = "xor" -> BoolVal(t[2], bb) # BoolVal(t[3], bb)
TInit == tid \in 1..Len(Traces) /\ done = FALSE /\ b = [k \in {} |-> TRUE] /\ prog = <<>> /\ stack = <<>> /\ trees = <<>>
Expected == [ok |-> BoolVal(T.tree, BOf(T)), has_msg |-> ~BoolVal(T.tree, BOf(T))]
TCheck == /\ ~done
          /\ (Diag => PrintT(<<"AT", T.id, 1, Expected>>))
          /\ Expected = [ok |-> T.final.ok, has_msg |-> T.final.has_msg]
          /\ done' = TRUE /\ UNCHANGED <<tid, b, prog, stack, trees>>
Accepted == done => PrintT(<<"ACC", T.id>>)
=============================================================================
