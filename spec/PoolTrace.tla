------------------------------ MODULE PoolTrace ------------------------------
(* Code -> spec for value pools of any size (C17): {"id", "pool": ["T"|"F"|"K"|"I" ...], "inp": index of the entered qualifier in the pool (0 = a value that
   is no qualifier of the pool, -1 = nothing entered), "seg": "REQUIRED"|"OPTIONAL"|"FORBIDDEN", "result": {offered: [indices], forbidden, fill, flagged}} -
   what the REAL validate_data_element_valuepool returned for a random pool of 1..14 entries with arbitrary qualifier spellings. *)
EXTENDS Validation, Json, IOUtils
Traces == ndJsonDeserialize(IOEnv.TRACE_FILE)
Diag == IOEnv.VERIF_DIAG = "1"
VARIABLES tid, done
T == Traces[tid]
TInit == tid \in 1..Len(Traces) /\ done = FALSE /\ nodes = <<>> /\ obs = <<>>
Off == IF T.seg = "FORBIDDEN" THEN <<>> ELSE Offered(T.pool)
Acc == T.inp >= 1 /\ InSeq(T.inp, Off)
Expected == [offered |-> Off, forbidden |-> Off = <<>>,
             fill |-> IF Off = <<>> THEN "" ELSE IF Acc THEN "FILLED" ELSE "EMPTY",
             flagged |-> Off # <<>> /\ ~Acc /\ T.inp # 0 - 1]
TCheck == /\ ~done
          /\ (Diag => PrintT(<<"AT", T.id, 1, Expected>>))
          /\ Expected = [offered |-> T.result.offered, forbidden |-> T.result.forbidden, fill |-> T.result.fill, flagged |-> T.result.flagged]
          /\ done' = TRUE /\ UNCHANGED <<tid, nodes, obs>>
Accepted == done => PrintT(<<"ACC", T.id>>)
==============================================================================
