INIT Init
NEXT Next
INVARIANT TypeOK
INVARIANT ResultClosed
CHECK_DEADLOCK FALSE
