------------------------------ MODULE Provider ------------------------------
(* Beyond the listed properties: the token-logic provider (SingletonTokenLogicProvider) as a small map machine.
   Evaluators / hints providers / package resolvers are registered per kind under the key "<format>-<version>", or under "undefined"
   when the instance does not declare format and version. Registering a second instance of the same kind under a key that is taken
   aborts the construction (ValueError); a lookup for a key nothing was registered under is a NotImplementedError, a lookup
   without format or version goes to "undefined". *)
EXTENDS Naturals, Sequences, FiniteSets, TLC
CONSTANTS Kinds, Formats, Versions, MaxInputs
None == "none"
Key(f, v) == IF f = None \/ v = None THEN <<"undefined", "undefined">> ELSE <<f, v>>

VARIABLES inputs,     \* Seq([kind, fmt, ver]) handed to the constructor (history = replay input)
          reg,        \* [Kinds -> set of <<key, index of the instance>>]
          failed      \* the constructor raised ValueError at the input with this index (0 = not failed)
vars == <<inputs, reg, failed>>
Init == inputs = <<>> /\ reg = [k \in Kinds |-> {}] /\ failed = 0
Taken(k, key) == \E e \in reg[k] : e[1] = key
Add(k, f, v) ==
  /\ failed = 0 /\ Len(inputs) < MaxInputs
  /\ inputs' = Append(inputs, [kind |-> k, fmt |-> f, ver |-> v])
  /\ IF Taken(k, Key(f, v))
     THEN failed' = Len(inputs) + 1 /\ UNCHANGED reg
     ELSE reg' = [reg EXCEPT ![k] = @ \cup {<<Key(f, v), Len(inputs) + 1>>}] /\ UNCHANGED failed
Next == \E k \in Kinds, f \in Formats \cup {None}, v \in Versions \cup {None} : Add(k, f, v)
\* lookup: index of the instance, or 0 for NotImplementedError
Lookup(k, f, v) == IF Taken(k, Key(f, v)) THEN (CHOOSE e \in reg[k] : e[1] = Key(f, v))[2] ELSE 0
\* invariants
AtMostOnePerKey == \A k \in Kinds : \A e1, e2 \in reg[k] : e1[1] = e2[1] => e1 = e2
KindsAreSeparate == failed = 0 => \A i \in 1..Len(inputs) : Lookup(inputs[i].kind, inputs[i].fmt, inputs[i].ver) = i
VARIABLE obs
ObsOf(rg, fl) == [failed |-> fl,
                  lookups |-> IF fl # 0 THEN <<>> ELSE
                     [q \in Kinds \X (Formats \cup {None}) \X (Versions \cup {None}) |->
                        IF \E e \in rg[q[1]] : e[1] = Key(q[2], q[3]) THEN (CHOOSE e \in rg[q[1]] : e[1] = Key(q[2], q[3]))[2] ELSE 0]]
MCInit == Init /\ obs = ObsOf([k \in Kinds |-> {}], 0)
MCNext == Next /\ obs' = ObsOf(reg', failed')
=============================================================================
