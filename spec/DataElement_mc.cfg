CONSTANTS
 MaxParts = 2
SPECIFICATION Spec
INVARIANT FormatOfDecidingPart
INVARIANT SuffixFromInput
INVARIANT SegmentDominates
INVARIANT SollIsRewriting
INVARIANT ErrorOnlyWhenUndeterminedMust
INVARIANT GatherDiscipline
INVARIANT LaterPartsIrrelevant
CHECK_DEADLOCK FALSE
