CONSTANTS
  RcKeys = {"1", "2"}
  FcKeys = {"901", "932"}
  ShippedFcKeys = {"932"}
  HintKeys = {"501", "502"}
  PkgKeys = {"1P", "2P"}
  MaxCalls = 2
  MaxKeysPerCall = 1
SPECIFICATION Spec
INVARIANT Stateless
INVARIANT OnlyErrorsAreAmbiguous
INVARIANT BulkDomain
INVARIANT BulkIsPointwise
INVARIANT FailuresCarryMessages
CHECK_DEADLOCK FALSE
