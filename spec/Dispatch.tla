------------------------------ MODULE Dispatch ------------------------------
(* Beyond the listed properties: the layer of user-supplied logic - requirement-constraint evaluators, format-constraint evaluators,
   hints providers, package resolvers - as the expression evaluation sees it (content_evaluation/evaluators.py, rc_evaluators.py,
   fc_evaluators.py, expressions/hints_provider.py, expressions/package_expansion.py).

   An evaluator is configured by a METHOD TABLE: for every condition key either no method ("absent"), a plain method ("sync") or a
   coroutine method ("async"). Method-table evaluators (subclasses with evaluate_<key> methods), dictionary based evaluators and
   evaluators that read a ContentEvaluationResult from the evaluatable data are three implementations of the same table: for the
   latter two "absent" = key missing in the mapping. One state of this machine = one evaluator + the history of calls made on it;
   the result of a call is a function of the table and the call alone (no call changes the evaluator).

   Results are <<"ok", value>> or <<"raise", exception name>>. *)
EXTENDS Naturals, Sequences, FiniteSets, TLC

CONSTANTS RcKeys, FcKeys, ShippedFcKeys, HintKeys, PkgKeys, MaxCalls, MaxKeysPerCall

VARIABLES kind,    \* "rc" | "fc" | "hints" | "pkg"
          impl,    \* "methods" | "dict" | "cer"
          cfg,     \* the table
          hist     \* Seq(<<call, result>>)
vars == <<kind, impl, cfg, hist>>

Raise(e) == <<"raise", e>>
Ok(v) == <<"ok", v>>
Range(s) == {s[i] : i \in 1..Len(s)}
SeqsUpTo(S, n) == UNION {[1..m -> S] : m \in 0..n}

MethodKinds == {"absent", "sync", "async"}
\* what a format-constraint method hands back
FcReturns == {"ok", "ok_msg", "fail_msg", "fail_nomsg", "wrong_type"}
Ctxs == {"none", "c1", "c2"}                       \* an EvaluationContext passed by the caller ("none" = use the evaluator's default)

(* --------------------------------------------------------------------------------------------- the four kinds of logic *)
\* requirement constraints -------------------------------------------------------------------------------------------
RcConfigs == [RcKeys -> MethodKinds]
SeenCtx(c) == IF c = "none" THEN "default" ELSE c
RcOne(m, k, c) == IF m[k] = "absent" THEN Raise("NotImplementedError")
                  ELSE Ok([key |-> k, ctx |-> IF impl = "methods" THEN SeenCtx(c) ELSE "unused"])
\* evaluate_conditions(keys, data, keys_with_context): all keys at once; one missing method fails the whole call;
\* the result maps every requested key (once) to ITS method's result in ITS context
CtxMaps == {<<"nomap", <<>>>>} \cup {<<"map", f>> : f \in UNION {[S -> Ctxs \ {"none"}] : S \in SUBSET RcKeys}}      \* (one shape: TLC cannot compare a string with a function)
CtxFor(cm, k) == IF cm[1] = "nomap" THEN "none" ELSE IF k \in DOMAIN cm[2] THEN cm[2][k] ELSE "none"
RcMany(m, ks, cm) == IF \E i \in 1..Len(ks) : m[ks[i]] = "absent" THEN Raise("NotImplementedError")
                     ELSE Ok([k \in Range(ks) |-> RcOne(m, k, CtxFor(cm, k))[2]])

\* format constraints ------------------------------------------------------------------------------------------------
\* every FcEvaluator inherits methods for the shipped keys (931-935): "absent" in the table of a shipped key = the inherited method
FcConfigs == [FcKeys -> MethodKinds \X FcReturns]
DefaultMessage(k) == <<"Condition [", k, "] has to be fulfilled.">>
FcOutcome(k, r) == CASE r = "ok"         -> Ok([fulfilled |-> TRUE,  msg |-> <<"none">>])
                     [] r = "ok_msg"     -> Ok([fulfilled |-> TRUE,  msg |-> <<"m">>])
                     [] r = "fail_msg"   -> Ok([fulfilled |-> FALSE, msg |-> <<"m">>])
                     [] r = "fail_nomsg" -> Ok([fulfilled |-> FALSE, msg |-> IF impl = "methods" THEN DefaultMessage(k) ELSE <<"none">>])   \* a method-table evaluator fills the message in
                     [] r = "wrong_type" -> Raise("ValueError")        \* a FormatConstraintEvaluationResult instead of an EvaluatedFormatConstraint (method tables only)
FcOne(m, k) == IF m[k][1] = "absent"
               THEN IF k \in ShippedFcKeys /\ impl = "methods" THEN <<"shipped", k>> ELSE Raise("NotImplementedError")
               ELSE FcOutcome(k, m[k][2])
IsRaise(r) == r[1] = "raise"
\* evaluate_format_constraints: all keys are evaluated concurrently; if several of them fail, the exception that surfaces is the one
\* raised FIRST IN TIME (asyncio.gather), which depends on how often each method yields: any of them is allowed
RaisesOf(m, ks) == {FcOne(m, ks[i]) : i \in {j \in 1..Len(ks) : IsRaise(FcOne(m, ks[j]))}}
FcMany(m, ks) == IF RaisesOf(m, ks) # {} THEN RaisesOf(m, ks)
                 ELSE {Ok([k \in Range(ks) |-> FcOne(m, k)])}

\* hints -----------------------------------------------------------------------------------------------------------------
HintConfigs == [HintKeys -> {"text", "missing"}] \X {"sync", "async"}        \* get_hint_text may be a plain method as well
HintsMany(h, ks, raise) ==
  LET missing == {i \in 1..Len(ks) : h[1][ks[i]] = "missing"}
  IN IF raise /\ missing # {} THEN Raise("KeyError")
     ELSE Ok([k \in {x \in Range(ks) : h[1][x] = "text"} |-> [key |-> k, text |-> <<"hint of ", k>>]])

\* packages --------------------------------------------------------------------------------------------------------------
PkgConfigs == [PkgKeys -> {"expr", "null", "missing"}]         \* "null": the mapping contains the key with None
\* (keys outside PkgKeys: the empty key and a key without the trailing P; only the dictionary based resolver refuses them)
PkgOne(p, k) == CASE k \notin PkgKeys /\ impl = "dict" -> Raise("ValueError")
                  [] k \notin PkgKeys  -> Ok([key |-> k, expr |-> <<"none">>])
                  [] p[k] = "expr"     -> Ok([key |-> k, expr |-> <<"expr of ", k>>])
                  [] OTHER             -> Ok([key |-> k, expr |-> <<"none">>])

(* --------------------------------------------------------------------------------------------------------- the machine *)
Init == /\ hist = <<>>
        /\ \/ kind = "rc" /\ cfg \in RcConfigs /\ impl \in {"methods", "dict", "cer"}
           \/ kind = "fc" /\ impl = "methods" /\ cfg \in FcConfigs
           \/ kind = "fc" /\ impl \in {"dict", "cer"} /\ cfg \in {c \in FcConfigs : \A k \in FcKeys : c[k][2] # "wrong_type" /\ c[k][1] # "sync"}
           \/ kind = "hints" /\ impl = "methods" /\ cfg \in HintConfigs
           \/ kind = "hints" /\ impl \in {"dict", "cer"} /\ cfg \in {c \in HintConfigs : c[2] = "async"}
           \/ kind = "pkg" /\ impl \in {"dict", "cer"} /\ cfg \in PkgConfigs

Calls == CASE kind = "rc" -> {<<"rc_one", k, c>> : k \in RcKeys, c \in Ctxs} \cup {<<"get_method", k>> : k \in RcKeys}
                             \cup {<<"rc_many", ks, cm>> : ks \in SeqsUpTo(RcKeys, MaxKeysPerCall), cm \in CtxMaps}
           [] kind = "fc" -> {<<"fc_one", k>> : k \in FcKeys} \cup {<<"get_method", k>> : k \in FcKeys} \cup {<<"fc_many", ks>> : ks \in SeqsUpTo(FcKeys, MaxKeysPerCall)}
           [] kind = "hints" -> {<<"hints", ks, r>> : ks \in SeqsUpTo(HintKeys, MaxKeysPerCall), r \in BOOLEAN}
           [] kind = "pkg" -> {<<"pkg", k>> : k \in PkgKeys \cup {"", "7"}}
\* get_evaluation_method(key), as documented: "the method that can be used for content_evaluation; None if no such method is implemented"
HasMethod(k) == IF kind = "rc" THEN cfg[k] # "absent" ELSE (cfg[k][1] # "absent" \/ (k \in ShippedFcKeys /\ impl = "methods"))
GetMethod(k) == Ok(IF HasMethod(k) THEN "callable" ELSE "none")
\* the set of results the call may have (a singleton except for the choice among several exceptions)
Allowed(c) == CASE c[1] = "rc_one"  -> {RcOne(cfg, c[2], c[3])}
                [] c[1] = "rc_many" -> {RcMany(cfg, c[2], c[3])}
                [] c[1] = "fc_one"  -> {FcOne(cfg, c[2])}
                [] c[1] = "fc_many" -> FcMany(cfg, c[2])
                [] c[1] = "hints"   -> {HintsMany(cfg, c[2], c[3])}
                [] c[1] = "pkg"     -> {PkgOne(cfg, c[2])}
                [] c[1] = "get_method" -> {GetMethod(c[2])}
Call(c) == /\ Len(hist) < MaxCalls
           /\ hist' = Append(hist, <<c, Allowed(c)>>)
           /\ UNCHANGED <<kind, impl, cfg>>
Next == \E c \in Calls : Call(c)
Spec == Init /\ [][Next]_vars

(* ---------------------------------------------------------------------------------------------------------- invariants *)
\* no call changes the evaluator: equal calls have equal sets of allowed results wherever they stand in the history, and the only freedom
\* is which of several exceptions is reported
Stateless == \A i, j \in 1..Len(hist) : hist[i][1] = hist[j][1] => hist[i][2] = hist[j][2]
OnlyErrorsAreAmbiguous == \A i \in 1..Len(hist) : \A r1, r2 \in hist[i][2] : r1 = r2 \/ (IsRaise(r1) /\ IsRaise(r2))
\* a successful bulk call answers exactly the requested keys
BulkDomain == \A i \in 1..Len(hist) : \A r \in hist[i][2] :
                LET c == hist[i][1] IN
                (r[1] = "ok" /\ c[1] \in {"rc_many", "fc_many"}) => DOMAIN r[2] = Range(c[2])
\* a bulk call agrees key by key with the single calls (no result lands under a neighbour's key, whatever the order and multiplicity of keys)
BulkIsPointwise == \A i \in 1..Len(hist) : \A r \in hist[i][2] :
                LET c == hist[i][1] IN
                /\ (r[1] = "ok" /\ c[1] = "rc_many") => \A k \in Range(c[2]) : Ok(r[2][k]) = RcOne(cfg, k, CtxFor(c[3], k))
                /\ (r[1] = "ok" /\ c[1] = "fc_many") => \A k \in Range(c[2]) : r[2][k] = FcOne(cfg, k)
\* an unfulfilled format constraint of a method-table evaluator always comes with a message (feeds the message algebra of FcEval.tla / C08)
FailuresCarryMessages == \A i \in 1..Len(hist) : \A r \in hist[i][2] :
                LET c == hist[i][1] IN
                (impl = "methods" /\ c[1] = "fc_one" /\ r[1] = "ok" /\ ~r[2].fulfilled) => r[2].msg # <<"none">>
=============================================================================
