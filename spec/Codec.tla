-------------------------------- MODULE Codec --------------------------------
(* JSON round trips (property C19): producer domain vs loader domain, per schema field.

   The field table is EXTRACTED from the real marshmallow schema objects at run time (harness/c19.py) and handed in as the
   constant Fields; the set of values ahbicht itself can put into a field comes from the evaluator specifications
   (Eval.tla: the outcome is true / false / none; hints, collected expression and messages are present or absent ...).
   Abstract values: "null" (None) or "val" (a proper value of the field's type).  marshmallow's documented rules:
     dump:  None is emitted as null; every declared field is emitted
     load:  null is accepted iff allow_none; a missing key takes load_default if there is one, is an error if required,
            and is otherwise simply absent (the post_load constructor then fails for a mandatory attribute)
   The machine builds one record of one schema field by field; RoundTrip demands Load(Dump(r)) = r for every producible r. *)
EXTENDS Naturals, Sequences, FiniteSets, TLC
CONSTANTS Fields      \* Seq([schema, name, allow_none, required, has_default, can_be_null])

Schemas == {Fields[i].schema : i \in 1..Len(Fields)}
FieldsOf(s) == SelectSeq(Fields, LAMBDA f : f.schema = s)
Values(f) == IF f.can_be_null THEN {"null", "val"} ELSE {"val"}

VARIABLES schema, rec        \* rec: values chosen so far for the first Len(rec) fields of `schema`
vars == <<schema, rec>>
Init == schema \in Schemas /\ rec = <<>>
Choose(v) == /\ Len(rec) < Len(FieldsOf(schema)) /\ v \in Values(FieldsOf(schema)[Len(rec) + 1])
             /\ rec' = Append(rec, v) /\ UNCHANGED schema
Next == \E v \in {"null", "val"} : Choose(v)

Dump(f, v) == v                                              \* None -> null, value -> value; nothing is omitted
Load(f, j) == IF j = "null" THEN (IF f.allow_none THEN "null" ELSE "ERROR") ELSE j
Complete == Len(rec) = Len(FieldsOf(schema))
Loaded == [i \in 1..Len(rec) |-> Load(FieldsOf(schema)[i], Dump(FieldsOf(schema)[i], rec[i]))]
RoundTrip == Loaded = rec
\* which fields would make a round trip fail - reported to the harness, which must reproduce every one of them on the real schema
FailingFields == {<<Fields[i].schema, Fields[i].name>> : i \in {j \in 1..Len(Fields) : Fields[j].can_be_null /\ ~Fields[j].allow_none}}
ASSUME PrintT(<<"FAILING", FailingFields>>)
=============================================================================
