----------------------------- MODULE Validation -----------------------------
(* Validation of a deep AHB (properties C13, C14, C16, C17).

   An AHB is a forest of segment groups; a group has sub-groups and segments; a segment has data elements (free text or
   value pool). The module
     (1) GENERATES every AHB up to MaxNodes nodes, node by node in document order (Add... actions), each node carrying the
         abstract result of its own AHB expression as label: indicator x requirement outcome, or INVALID;
     (2) defines the DOCUMENTED validation as a recursive walk (Walk/Validate): own status from the documented mapping,
         combined with the parent's status by the documented table, nothing reported below a forbidden node, the whole
         run undetermined ("error") if a visited MUSS/prefix-operator node has an undetermined outcome;
     (3) states the properties as invariants over every generated AHB.
   Labels:  [ind |-> "MUSS"|"SOLL"|"KANN"|"PFX"|"INV", ful |-> "T"|"F"|"K"]   (INV = well-formed but invalid expression)
   Nodes:   [kind |-> "g"|"s"|"f"|"p", par |-> index of the parent (0 for a root group), lab, inp, pool]
            f: inp in {"none","text"};  p: pool = sequence of entry labels "T"/"F"/"K"/"I", inp in {"none","q1","q2","q3","zz"}. *)
EXTENDS Naturals, Sequences, FiniteSets, TLC

CONSTANTS MaxNodes,
          SegLabels,     \* labels used for groups and segments
          FreeLabels,    \* labels used for free-text data elements
          Pools,         \* pools (sequences of entry labels) used for value-pool data elements
          PoolInputs     \* entered values for value pools

NoLab == [ind |-> "NONE", ful |-> "T"]
Kann  == [ind |-> "KANN", ful |-> "T"]       \* the label of the expression 'Kann'

VARIABLES nodes          \* the AHB: Seq(Node) in document order (history = replay input)
vars == <<nodes>>

(* ------------------------------------------------------------------------------------------------ generator *)
Last == Len(nodes)
RECURSIVE IsAncestorOrSelf(_, _, _)
IsAncestorOrSelf(ns, a, i) == IF i = 0 THEN FALSE ELSE IF a = i THEN TRUE ELSE IsAncestorOrSelf(ns, a, ns[i].par)
\* a node may receive a further child only if it lies on the path from a root to the most recently added node
Open(i) == Last > 0 /\ IsAncestorOrSelf(nodes, i, Last)
HasSegments(i) == \E j \in 1..Last : nodes[j].par = i /\ nodes[j].kind = "s"

Init == nodes = <<>>
AddGroup(par, lab) ==
  /\ Last < MaxNodes
  /\ (par = 0 \/ (Open(par) /\ nodes[par].kind = "g" /\ ~HasSegments(par)))     \* sub-groups come before segments
  /\ nodes' = Append(nodes, [kind |-> "g", par |-> par, lab |-> lab, inp |-> "none", pool |-> <<>>])
AddSegment(par, lab) ==
  /\ Last < MaxNodes /\ par > 0 /\ Open(par) /\ nodes[par].kind = "g"
  /\ nodes' = Append(nodes, [kind |-> "s", par |-> par, lab |-> lab, inp |-> "none", pool |-> <<>>])
AddFree(par, lab, inp) ==
  /\ Last < MaxNodes /\ par > 0 /\ Open(par) /\ nodes[par].kind = "s"
  /\ nodes' = Append(nodes, [kind |-> "f", par |-> par, lab |-> lab, inp |-> inp, pool |-> <<>>])
AddPool(par, pool, inp) ==
  /\ Last < MaxNodes /\ par > 0 /\ Open(par) /\ nodes[par].kind = "s"
  /\ nodes' = Append(nodes, [kind |-> "p", par |-> par, lab |-> NoLab, inp |-> inp, pool |-> pool])

Next == \/ \E par \in 0..Last, lab \in SegLabels : AddGroup(par, lab) \/ AddSegment(par, lab)
        \/ \E par \in 1..Last, lab \in FreeLabels, inp \in {"none", "text"} : AddFree(par, lab, inp)
        \/ \E par \in 1..Last, pool \in Pools, inp \in PoolInputs : AddPool(par, pool, inp)
Spec == Init /\ [][Next]_vars

(* ------------------------------------------------------------------------------- the documented validation *)
\* requirement indicator x requirement outcome -> own status (documented mapping); SOLL is read as MUSS or KANN
OwnStatus(lab, soll) ==
  IF lab.ind = "INV" THEN "OPTIONAL"                   \* invalid expression: optional, reason as hint
  ELSE LET ind == IF lab.ind = "SOLL" THEN (IF soll THEN "MUSS" ELSE "KANN") ELSE lab.ind IN
       CASE lab.ful = "F" -> "FORBIDDEN"
         [] lab.ful = "K" -> IF ind \in {"MUSS", "PFX"} THEN "ERROR" ELSE "OPTIONAL"
         [] lab.ful = "T" -> IF ind \in {"MUSS", "PFX"} THEN "REQUIRED" ELSE "OPTIONAL"
\* documented table: parent status beats child status ("NONE" = no parent)
Combine(p, c) == IF p \in {"NONE", "REQUIRED"} THEN c
                 ELSE IF c = "REQUIRED" THEN "OPTIONAL" ELSE c             \* parent OPTIONAL
\* value pools (C17)
Offered(pool) == IF Len(pool) = 1 THEN <<1>>
                 ELSE SelectSeq([j \in 1..Len(pool) |-> j], LAMBDA j : pool[j] \in {"T", "I"})
InputIndex(inp) == CASE inp = "q1" -> 1 [] inp = "q2" -> 2 [] inp = "q3" -> 3 [] OTHER -> 0
InSeq(x, s) == \E j \in 1..Len(s) : s[j] = x
PoolResult(pool, inp, segStatus) ==
  LET off == IF segStatus = "FORBIDDEN" THEN <<>> ELSE Offered(pool)
      accepted == InputIndex(inp) # 0 /\ InputIndex(inp) <= Len(pool) /\ InSeq(InputIndex(inp), off)
  IN [offered |-> off,
      status  |-> IF off = <<>> THEN "FORBIDDEN" ELSE "REQUIRED",
      fill    |-> IF off = <<>> THEN "" ELSE IF accepted THEN "FILLED" ELSE "EMPTY",
      flagged |-> off # <<>> /\ ~accepted /\ inp # "none"]

ChildrenOf(ns, i) == SelectSeq([j \in 1..Len(ns) |-> j], LAMBDA j : ns[j].par = i)
RECURSIVE WalkAll(_, _, _, _)
RECURSIVE Walk(_, _, _, _)
\* result entries: [id, status: REQUIRED/OPTIONAL/FORBIDDEN/ERROR, fill: ""/FILLED/EMPTY, flagged, offered]
Entry(i, st) == [id |-> i, status |-> st, fill |-> "", flagged |-> FALSE, offered |-> <<>>]
Walk(ns, i, p, soll) ==
  LET n == ns[i] IN
  IF n.kind \in {"g", "s"}
  THEN LET st == IF OwnStatus(n.lab, soll) = "ERROR" THEN "ERROR" ELSE Combine(p, OwnStatus(n.lab, soll)) IN
       IF st \in {"FORBIDDEN", "ERROR"} THEN <<Entry(i, st)>>
       ELSE <<Entry(i, st)>> \o WalkAll(ns, ChildrenOf(ns, i), st, soll)
  ELSE IF n.kind = "f"
  THEN IF n.lab.ind = "INV" THEN <<Entry(i, "OPTIONAL")>>
       ELSE LET o == OwnStatus(n.lab, soll) IN
            IF o = "ERROR" THEN <<Entry(i, "ERROR")>>
            ELSE <<[Entry(i, Combine(p, o)) EXCEPT !.fill = IF n.inp = "text" THEN "FILLED" ELSE "EMPTY"]>>
  ELSE LET r == PoolResult(n.pool, n.inp, p) IN
       <<[id |-> i, status |-> r.status, fill |-> r.fill, flagged |-> r.flagged, offered |-> r.offered]>>
WalkAll(ns, is, p, soll) == IF is = <<>> THEN <<>> ELSE Walk(ns, is[1], p, soll) \o WalkAll(ns, Tail(is), p, soll)

HasError(r) == \E j \in 1..Len(r) : r[j].status = "ERROR"
\* the result of validate_deep_anwendungshandbuch: the list, or "error" (NotImplementedError for the whole run)
Validate(ns, soll) == LET r == WalkAll(ns, ChildrenOf(ns, 0), "NONE", soll) IN IF HasError(r) THEN <<Entry(0, "ERROR")>> ELSE r
IsError(r) == Len(r) = 1 /\ r[1].id = 0

(* ------------------------------------------------------------------------------------------------ properties *)
Status(ns, soll, i) == LET r == Validate(ns, soll) IN
                       IF \E j \in 1..Len(r) : r[j].id = i THEN r[CHOOSE j \in 1..Len(r) : r[j].id = i].status ELSE "UNREPORTED"
Req(st) == st
RECURSIVE PrunedAbove(_, _, _)     \* some proper ancestor of i is reported forbidden
PrunedAbove(ns, soll, i) == LET p == ns[i].par IN
                            IF p = 0 THEN FALSE ELSE Req(Status(ns, soll, p)) \in {"FORBIDDEN", "UNREPORTED"} \/ PrunedAbove(ns, soll, p)

\* C13: every node exactly once, in document order, except below forbidden nodes
ExactlyOnceInOrder == \A soll \in BOOLEAN :
  LET r == Validate(nodes, soll) IN
  ~IsError(r) =>
     /\ \A j \in 1..(Len(r) - 1) : r[j].id < r[j + 1].id
     /\ {r[j].id : j \in 1..Len(r)} = {i \in 1..Last : ~PrunedAbove(nodes, soll, i)}
\* C13: below an optional node nothing is required; below a required node the own status is kept
ParentDominates == \A soll \in BOOLEAN :
  LET r == Validate(nodes, soll) IN
  ~IsError(r) => \A j \in 1..Len(r) :
     LET i == r[j].id
         n == nodes[i]
     IN (n.par # 0 /\ n.kind # "p") =>
          LET ps == Req(Status(nodes, soll, n.par)) IN
          /\ ps \in {"REQUIRED", "OPTIONAL"}
          /\ (ps = "OPTIONAL" => Req(r[j].status) # "REQUIRED")
          /\ (ps = "REQUIRED" => Req(r[j].status) = OwnStatus(n.lab, soll))
\* C13: FILLED/EMPTY suffix of free-text elements matches their input
Suffix == \A soll \in BOOLEAN :
  LET r == Validate(nodes, soll) IN
  ~IsError(r) => \A j \in 1..Len(r) :
     (nodes[r[j].id].kind = "f" /\ nodes[r[j].id].lab.ind # "INV") =>
        r[j].fill = (IF nodes[r[j].id].inp = "text" THEN "FILLED" ELSE "EMPTY")

\* C14: soll_is_required = rewriting SOLL
Rewrite(ns, to) == [j \in 1..Len(ns) |-> IF ns[j].lab.ind = "SOLL" THEN [ns[j] EXCEPT !.lab.ind = to] ELSE ns[j]]
SollEquivalence ==
  /\ \A s \in BOOLEAN : Validate(nodes, TRUE) = Validate(Rewrite(nodes, "MUSS"), s)
  /\ \A s \in BOOLEAN : Validate(nodes, FALSE) = Validate(Rewrite(nodes, "KANN"), s)

\* C16: an invalid expression behaves like 'Kann' for every other node and is itself optional; it never aborts
InvalidNodes == {i \in 1..Last : nodes[i].kind # "p" /\ nodes[i].lab.ind = "INV"}
ReplaceByKann(ns, S) == [j \in 1..Len(ns) |-> IF j \in S THEN [ns[j] EXCEPT !.lab = Kann] ELSE ns[j]]
InvalidPoolToSelectable(ns) == [j \in 1..Len(ns) |-> IF ns[j].kind = "p"
                                 THEN [ns[j] EXCEPT !.pool = [k \in 1..Len(ns[j].pool) |-> IF ns[j].pool[k] = "I" THEN "T" ELSE ns[j].pool[k]]]
                                 ELSE ns[j]]
Containment == \A soll \in BOOLEAN :
  LET r  == Validate(nodes, soll)
      r2 == Validate(InvalidPoolToSelectable(ReplaceByKann(nodes, InvalidNodes)), soll)
  IN /\ IsError(r) = IsError(r2)
     /\ ~IsError(r) =>
          /\ Len(r) = Len(r2)
          /\ \A j \in 1..Len(r) :
               /\ r[j].id = r2[j].id
               /\ (r[j].id \in InvalidNodes => Req(r[j].status) = "OPTIONAL")
               /\ (r[j].id \notin InvalidNodes => r[j] = r2[j])

\* C17 on the pools inside the AHBs
PoolRules == \A soll \in BOOLEAN :
  LET r == Validate(nodes, soll) IN
  ~IsError(r) => \A j \in 1..Len(r) :
     LET n == nodes[r[j].id] IN
     n.kind = "p" =>
       /\ r[j].offered = (IF Len(n.pool) = 1 THEN <<1>> ELSE SelectSeq([k \in 1..Len(n.pool) |-> k], LAMBDA k : n.pool[k] \in {"T", "I"}))
       /\ (r[j].status = "FORBIDDEN") = (r[j].offered = <<>>)
       /\ (r[j].fill = "FILLED") = (InputIndex(n.inp) # 0 /\ InSeq(InputIndex(n.inp), r[j].offered))
       /\ r[j].flagged = (r[j].offered # <<>> /\ n.inp # "none" /\ r[j].fill # "FILLED")

\* observation for the replay: the expected result lists for both flag values
VARIABLE obs
\* (for a value pool added last: also the documented result of validating it directly below a segment of each status)
ObsOf(ns) == [t |-> Validate(ns, TRUE), f |-> Validate(ns, FALSE),
              direct |-> IF ns # <<>> /\ ns[Len(ns)].kind = "p"
                         THEN [st \in {"REQUIRED", "OPTIONAL", "FORBIDDEN"} |-> PoolResult(ns[Len(ns)].pool, ns[Len(ns)].inp, st)]
                         ELSE <<>>]
MCInit == Init /\ obs = ObsOf(<<>>)
MCNext == Next /\ obs' = ObsOf(nodes')
=============================================================================
