CONSTANTS
 MaxTok = 100000
INIT TInit
NEXT TFeed
CONSTRAINT Accepted
CHECK_DEADLOCK FALSE
