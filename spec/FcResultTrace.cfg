CONSTANTS
 MaxLeaves = 100000
 FcKeys = {901}
INIT TInit
NEXT TCheck
CONSTRAINT Accepted
CHECK_DEADLOCK FALSE
