------------------------------- MODULE Async -------------------------------
(* ahbicht's asynchronous orchestration (properties C12, C15): tasks, asyncio.gather, context variables.

   The orchestration is series-parallel. A PLAN is a finite tree given as a function from positions (paths, sequences of
   child indices) to nodes
       [t |-> "seq",   n |-> #children]                    awaited one after the other inside the same task
       [t |-> "par",   n |-> #children]                    asyncio.gather(c1..cn): every child becomes a TASK with a COPY of the context
       [t |-> "await", labels |-> <<l1..lk>>]              ONE asyncio.gather over user-supplied awaitables (evaluators, hint
                                                           provider, package resolver); positional result slots; each awaitable is a task
       [t |-> "set",   v |-> text]                         text_to_be_evaluated_by_format_constraint.set(text)      (synchronous)
       [t |-> "bind",  v |-> data]                         the caller's setter writes context-local EvaluatableData  (synchronous)
   The plans of the real entry points are derived from the expression / AHB by harness/plans.py (the model of WHERE ahbicht
   gathers); this module is the semantics: what may be pending together, what every awaitable observes when it starts, how
   results are paired with keys.

   State = which synchronous nodes were executed, which awaitables completed, the context of every task, what every awaitable
   read when it was started, and the completion order per gather. Synchronous steps (Internal) have priority over completions:
   in the code they happen without yielding to the event loop. *)
EXTENDS Naturals, Sequences, FiniteSets, TLC

CONSTANTS Plan,         \* [Pos -> node]
          GatherMode,   \* "positional" (the required design) | "completion_order" (sensitivity: breaks Assoc)
          CtxMode,      \* "copy" (the required design)       | "shared" (sensitivity: breaks OwnContext)
          Expect        \* [label -> [text, data]]: what the awaitable must observe ("any" = unconstrained)

Pos == DOMAIN Plan
Node(p) == Plan[p]
Parent(p) == SubSeq(p, 1, Len(p) - 1)
Idx(p) == p[Len(p)]
Child(p, i) == Append(p, i)
Awaits == {p \in Pos : Node(p).t = "await"}
LabelsOf(p) == {Node(p).labels[i] : i \in 1..Len(Node(p).labels)}
AllLabels == UNION {LabelsOf(p) : p \in Awaits}
AwaitOf(l) == CHOOSE p \in Awaits : l \in LabelsOf(p)

IsTaskRoot(p) == p = <<>> \/ Node(Parent(p)).t = "par"
RECURSIVE TaskOf(_)
TaskOf(p) == IF IsTaskRoot(p) THEN p ELSE TaskOf(Parent(p))
Tasks == {p \in Pos : IsTaskRoot(p)}
CtxKey(p) == IF CtxMode = "shared" THEN <<>> ELSE TaskOf(p)

VARIABLES executed,    \* set of positions of synchronous nodes (set/bind/par-spawn/await-start) already performed
          completed,   \* set of labels whose awaitable has completed
          ctx,         \* [Tasks -> [text, data]]   context of every task
          read,        \* [AllLabels -> [text, data]]  what the awaitable observed when it was started
          order        \* [Awaits -> Seq(label)]   completion order per gather
vars == <<executed, completed, ctx, read, order>>

Blank == [text |-> "none", data |-> "none"]
Init == /\ executed = {} /\ completed = {}
        /\ ctx = [p \in Tasks |-> Blank]
        /\ read = [l \in AllLabels |-> Blank]
        /\ order = [p \in Awaits |-> <<>>]

\* (operators of VALUES, so that they can also be applied to the primed variables cheaply)
RECURSIVE DoneV(_, _, _)
DoneV(d, ex, co) == CASE Node(d).t \in {"set", "bind"} -> d \in ex
                      [] Node(d).t = "await" -> d \in ex /\ LabelsOf(d) \subseteq co
                      [] Node(d).t = "seq"   -> \A i \in 1..Node(d).n : DoneV(Child(d, i), ex, co)
                      [] Node(d).t = "par"   -> d \in ex /\ \A i \in 1..Node(d).n : DoneV(Child(d, i), ex, co)
\* (IF-THEN-ELSE on purpose: inside an action TLC explores both sides of a state-level `\/`, so `Idx(s) = 1 \/ DoneV(..)` would
\*  evaluate DoneV on the non-existent sibling 0)
PrevSibling(s) == Child(Parent(s), Idx(s) - 1)
RECURSIVE StartedV(_, _, _)
StartedV(s, ex, co) == IF s = <<>> THEN TRUE
                       ELSE IF Node(Parent(s)).t = "par" THEN Parent(s) \in ex
                       ELSE StartedV(Parent(s), ex, co) /\ (IF Idx(s) = 1 THEN TRUE ELSE DoneV(PrevSibling(s), ex, co))
CanInternalV(p, ex, co) == Node(p).t \in {"set", "bind", "par", "await"} /\ p \notin ex /\ StartedV(p, ex, co)
SettledV(ex, co) == \A p \in Pos : ~CanInternalV(p, ex, co)
PendingV(ex, co) == UNION {LabelsOf(p) : p \in (Awaits \cap ex)} \ co
Done(p) == DoneV(p, executed, completed)
Started(p) == StartedV(p, executed, completed)

CanInternal(p) == Node(p).t \in {"set", "bind", "par", "await"} /\ p \notin executed /\ Started(p)
Internal(p) ==
  /\ CanInternal(p)
  /\ executed' = executed \cup {p}
  /\ CASE Node(p).t = "set"  -> ctx' = [ctx EXCEPT ![CtxKey(p)].text = Node(p).v] /\ UNCHANGED read
       [] Node(p).t = "bind" -> ctx' = [ctx EXCEPT ![CtxKey(p)].data = Node(p).v] /\ UNCHANGED read
       [] Node(p).t = "par"  -> /\ ctx' = [q \in Tasks |-> IF q # <<>> /\ Parent(q) = p /\ CtxMode = "copy" THEN ctx[CtxKey(p)] ELSE ctx[q]]
                                /\ UNCHANGED read
       [] Node(p).t = "await" -> /\ read' = [l \in AllLabels |-> IF l \in LabelsOf(p) THEN ctx[CtxKey(p)] ELSE read[l]]
                                 /\ UNCHANGED ctx
  /\ UNCHANGED <<completed, order>>

Settled == SettledV(executed, completed)
Pending == PendingV(executed, completed)
Complete(l) ==
  /\ Settled /\ l \in Pending
  /\ completed' = completed \cup {l}
  /\ order' = [order EXCEPT ![AwaitOf(l)] = Append(@, l)]
  /\ UNCHANGED <<executed, ctx, read>>

Next == (\E p \in Pos : Internal(p)) \/ (\E l \in AllLabels : Complete(l))
Spec == Init /\ [][Next]_vars
Finished == Done(<<>>)

(* ------------------------------------------------------------------------------------------------ properties *)
\* which result ends up in slot i of gather p
Slot(p) == IF GatherMode = "positional" THEN Node(p).labels ELSE order[p]
\* C12: every key / package occurrence / part is paired with the value produced for it
Assoc == \A p \in Awaits : Done(p) => Slot(p) = Node(p).labels
\* C12 (context-local data) and C15 (own input): every awaitable observed what its own evaluation / data element set
OwnContext == \A p \in Awaits \cap executed : \A l \in LabelsOf(p) :
                 /\ (Expect[l].text # "any" => read[l].text = Expect[l].text)
                 /\ (Expect[l].data # "any" => read[l].data = Expect[l].data)
\* completions never enable or disable anything in a sibling task that is not ordered after them: the set of pending
\* awaitables only loses the completed one and gains awaitables sequenced behind it (no lost wake-up, no double start)
NoLostOrDoubleStart == [][\A l \in AllLabels : (l \in completed => l \in completed') /\ (l \in PendingV(executed', completed') => l \notin completed)]_vars
TypeOK == completed \subseteq AllLabels /\ executed \subseteq Pos
\* liveness of the design: if every started awaitable eventually completes, the whole call finishes (no lost wake-up, nothing waits for an
\* awaitable that is never started) - checked under weak fairness of the next-state relation
Termination == <>Finished

\* observation for the replay (function of the other variables)
VARIABLE obs
\* `order` is a history variable (it multiplies the states by the number of completion orders): verdict configurations hide it with this VIEW;
\* only the sensitivity configuration for GatherMode = "completion_order" needs it
ViewWithoutOrder == <<executed, completed, ctx, read, obs>>
ObsOf(ex, co) == [settled |-> SettledV(ex, co), pending |-> PendingV(ex, co), completed |-> co, finished |-> DoneV(<<>>, ex, co)]
MCInit == Init /\ obs = ObsOf({}, {})
MCNext == Next /\ obs' = ObsOf(executed', completed')
FairSpec == MCInit /\ [][MCNext]_<<vars, obs>> /\ WF_<<vars, obs>>(MCNext)
=============================================================================
