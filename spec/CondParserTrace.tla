--------------------------- MODULE CondParserTrace ---------------------------
(* Code -> spec: {"id", "toks": [...], "tree": n-ary normal form of the real parser's tree | ["reject", []]}.
   The machine is fed the logged tokens one by one; the run is accepted iff (a) every token is enabled when it arrives and
   the final state is accepting and its Result equals the logged tree, or (b) the log says "reject" and the machine gets
   stuck or ends in a non-accepting state. *)
EXTENDS CondParser, Json, IOUtils
Traces == ndJsonDeserialize(IOEnv.TRACE_FILE)
Diag == IOEnv.VERIF_DIAG = "1"
VARIABLES tid, i, stuck
T == Traces[tid]
Say(x) == Diag => PrintT(<<"AT", T.id, i, x>>)
TInit == tid \in 1..Len(Traces) /\ i = 1 /\ stuck = FALSE /\ Init
TFeed == /\ ~stuck /\ i <= Len(T.toks)
         /\ IF CanFeed(T.toks[i]) THEN Feed(T.toks[i]) /\ stuck' = FALSE
                                  ELSE stuck' = TRUE /\ UNCHANGED vars
         /\ i' = i + 1 /\ UNCHANGED tid
AtEnd == stuck \/ i = Len(T.toks) + 1
Verdict == IF ~stuck /\ Accepting THEN Result ELSE <<"reject", <<>>>>
Accepted == AtEnd => ( /\ Say(Verdict)
                       /\ (Verdict = T.tree => PrintT(<<"ACC", T.id>>)) )
==============================================================================
