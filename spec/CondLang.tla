------------------------------ MODULE CondLang ------------------------------
(* The condition-expression language at token level, constant-level definitions only (no variables), shared by
   CondParser.tla, Lexer.tla, AhbSplit.tla and Resolve.tla:
     WellFormed(ts) - C02's sentence: operands, balanced brackets, U/O/X with an operand on both sides, juxtaposition;
     Split(ts)      - C01's sentence: brackets bind tightest, then juxtaposition, AND, XOR, OR; n-ary normal form. *)
EXTENDS Integers, Sequences, FiniteSets, TLC

Toks == {"a", "(", ")", "U", "X", "O"}
OpOf(tok) == CASE tok = "U" -> "and" [] tok = "X" -> "xor" [] tok = "O" -> "or"
Prec(o) == CASE o = "or" -> 1 [] o = "xor" -> 2 [] o = "and" -> 3 [] o = "then" -> 4 [] o = "(" -> 0
Last(s)  == s[Len(s)]
Front(s) == SubSeq(s, 1, Len(s) - 1)
Leaf(i) == <<"leaf", <<i>>>>

IsOpTok(t) == t \in {"U", "X", "O"}
IsOperand(t) == t \notin {"(", ")", "U", "X", "O"}      \* "a" in CondParser/Lexer/AhbSplit; concrete operand names in Resolve
RECURSIVE BalancedFrom(_, _, _)
BalancedFrom(ts, i, d) == IF i > Len(ts) THEN d = 0
                          ELSE IF ts[i] = "(" THEN BalancedFrom(ts, i + 1, d + 1)
                          ELSE IF ts[i] = ")" THEN d > 0 /\ BalancedFrom(ts, i + 1, d - 1)
                          ELSE BalancedFrom(ts, i + 1, d)
\* C02: operands, balanced brackets, U/O/X with an operand on both sides, juxtaposition
WellFormed(ts) ==
  /\ ts # <<>>
  /\ BalancedFrom(ts, 1, 0)
  /\ ~IsOpTok(ts[1]) /\ ~IsOpTok(ts[Len(ts)])
  /\ \A i \in 1..(Len(ts) - 1) :
        /\ ~(IsOpTok(ts[i]) /\ IsOpTok(ts[i + 1]))            \* operator needs an operand on both sides
        /\ ~(ts[i] = "(" /\ (IsOpTok(ts[i + 1]) \/ ts[i + 1] = ")"))   \* nothing empty, no operator right after "("
        /\ ~(IsOpTok(ts[i]) /\ ts[i + 1] = ")")

\* positions are pairs <<token, operand number>>
RECURSIVE Number(_, _, _)
Number(ts, i, n) == IF i > Len(ts) THEN <<>>
                    ELSE IF IsOperand(ts[i]) THEN <<<<ts[i], n + 1>>>> \o Number(ts, i + 1, n + 1)
                    ELSE <<<<ts[i], 0>>>> \o Number(ts, i + 1, n)
RECURSIVE Depths(_, _, _)     \* Depths(ps,i,d): sequence of bracket depths AT each position (depth of "(" = outer depth)
Depths(ps, i, d) == IF i > Len(ps) THEN <<>>
                    ELSE IF ps[i][1] = "(" THEN <<d>> \o Depths(ps, i + 1, d + 1)
                    ELSE IF ps[i][1] = ")" THEN <<d - 1>> \o Depths(ps, i + 1, d - 1)
                    ELSE <<d>> \o Depths(ps, i + 1, d)
\* cut positions of operator o at depth 0 (for "then": boundaries between a complete operand and the start of the next)
Cuts(ps, o) ==
  LET ds == Depths(ps, 1, 0) IN
  IF o = "then"
  THEN {i \in 1..(Len(ps) - 1) : ds[i] = 0 /\ ds[i + 1] = 0 /\ (IsOperand(ps[i][1]) \/ ps[i][1] = ")")
                                                         /\ (IsOperand(ps[i + 1][1]) \/ ps[i + 1][1] = "(")}
  ELSE {i \in 1..Len(ps) : ds[i] = 0 /\ IsOpTok(ps[i][1]) /\ OpOf(ps[i][1]) = o}
Enclosed(ps) == Len(ps) >= 2 /\ ps[1][1] = "(" /\ ps[Len(ps)][1] = ")"
                /\ LET ds == Depths(ps, 1, 0) IN \A i \in 2..(Len(ps) - 1) : ds[i] >= 1
RECURSIVE Pieces(_, _, _, _)  \* split ps at the sorted cut positions; for "then" the cut lies AFTER position c
Pieces(ps, cuts, from, o) ==
  IF cuts = {} THEN <<SubSeq(ps, from, Len(ps))>>
  ELSE LET c == CHOOSE x \in cuts : \A y \in cuts : x <= y IN
       IF o = "then" THEN <<SubSeq(ps, from, c)>> \o Pieces(ps, cuts \ {c}, c + 1, o)
       ELSE <<SubSeq(ps, from, c - 1)>> \o Pieces(ps, cuts \ {c}, c + 1, o)
RECURSIVE SplitP(_)
SplitP(ps) ==
  IF Len(ps) = 1 THEN Leaf(ps[1][2])
  ELSE IF Enclosed(ps) THEN SplitP(SubSeq(ps, 2, Len(ps) - 1))
  ELSE LET o == IF Cuts(ps, "or") # {} THEN "or" ELSE IF Cuts(ps, "xor") # {} THEN "xor"
                ELSE IF Cuts(ps, "and") # {} THEN "and" ELSE "then"
           pcs == Pieces(ps, Cuts(ps, o), 1, o)
       IN <<o, [j \in 1..Len(pcs) |-> SplitP(pcs[j])]>>
Split(ts) == SplitP(Number(ts, 1, 0))

=============================================================================
