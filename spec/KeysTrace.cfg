CONSTANTS
 Pool = {}
 MaxLen = 0
 MaxKey = 2600
INIT TInit
NEXT TCheck
CONSTRAINT Accepted
CHECK_DEADLOCK FALSE
