------------------------------ MODULE AhbSplit ------------------------------
(* The AHB-expression language and its splitting into parts (properties C09, C02), at token level.

   Tokens: "M" "S" "K"  - a modal mark word (M/Muss, S/Soll, K/Kann; the harness picks spelling and letter case),
           "a" "(" ")" "U" "X" "O" - the condition tokens of CondLang; a U/X/O in FIRST position is a prefix operator.
   Documented forms:   (modal cond)+ [modal]   |   prefix cond   |   modal   |   prefix   |   cond  (fallback of the resolver)
   The machine reads tokens left to right; its reachable states are the viable prefixes of that language up to MaxTok;
   `parts` is the split in written order with NORMALISED indicators, each with the grouping (CondLang!Split) of its
   condition expression.  The resolver must accept exactly the accepting states' strings (C02) and produce exactly
   `Parts` (C09); everything else is a SyntaxError. *)
EXTENDS CondLang
CONSTANTS MaxTok,
          Alphabet     \* the tokens the generator may feed (a subset of AllToks; AllToks for the full language)
Modal == {"M", "S", "K"}
Norm(w) == CASE w = "M" -> "MUSS" [] w = "S" -> "SOLL" [] w = "K" -> "KANN" [] w = "U" -> "U" [] w = "X" -> "X" [] w = "O" -> "O"
AllToks == Modal \cup Toks

VARIABLES consumed,   \* history
          kind,       \* "start" | "modal" | "prefix" | "cond"
          done,       \* finished parts: Seq(<<indicator, condition tokens>>)
          ind,        \* indicator of the part being read ("" in kind "cond")
          cur,        \* condition tokens of the part being read
          expect, depth   \* viability of `cur` as a condition expression (as in Lexer.tla)
vars == <<consumed, kind, done, ind, cur, expect, depth>>

Init == consumed = <<>> /\ kind = "start" /\ done = <<>> /\ ind = "" /\ cur = <<>> /\ expect = "operand" /\ depth = 0

CondComplete == cur # <<>> /\ expect = "operator" /\ depth = 0
CanCond(t) == CASE t \in {"a", "("} -> TRUE
                [] t = ")" -> expect = "operator" /\ depth > 0
                [] OTHER   -> expect = "operator"            \* U X O

CanFeed(t) ==
  CASE kind = "start"  -> t \in Modal \/ t \in {"U", "X", "O"} \/ t \in {"a", "("}
    [] kind = "modal"  -> IF t \in Modal THEN CondComplete ELSE CanCond(t)
    [] kind = "prefix" -> t \notin Modal /\ CanCond(t)
    [] kind = "cond"   -> t \notin Modal /\ CanCond(t)

ReadCond(t) == /\ cur' = Append(cur, t)
               /\ expect' = IF t \in {"a", ")"} THEN "operator" ELSE "operand"
               /\ depth' = IF t = "(" THEN depth + 1 ELSE IF t = ")" THEN depth - 1 ELSE depth

Feed(t) ==
  /\ Len(consumed) < MaxTok
  /\ CanFeed(t)
  /\ consumed' = Append(consumed, t)
  /\ IF kind = "start" /\ t \in Modal
     THEN kind' = "modal" /\ ind' = t /\ UNCHANGED <<done, cur, expect, depth>>
     ELSE IF kind = "start" /\ t \in {"U", "X", "O"}
     THEN kind' = "prefix" /\ ind' = t /\ UNCHANGED <<done, cur, expect, depth>>
     ELSE IF kind = "start"
     THEN kind' = "cond" /\ ReadCond(t) /\ UNCHANGED <<done, ind>>
     ELSE IF t \in Modal                                     \* next modal-mark part starts
     THEN /\ done' = Append(done, <<ind, cur>>) /\ ind' = t /\ cur' = <<>> /\ expect' = "operand" /\ depth' = 0
          /\ UNCHANGED kind
     ELSE ReadCond(t) /\ UNCHANGED <<kind, done, ind>>

Next == \E t \in Alphabet : Feed(t)
Spec == Init /\ [][Next]_vars

\* accepting configurations = the documented forms
Accepting == CASE kind = "start"  -> FALSE
               [] kind = "modal"  -> CondComplete \/ cur = <<>>       \* last part complete, or a bare last mark / bare indicator
               [] kind = "prefix" -> CondComplete \/ cur = <<>>
               [] kind = "cond"   -> CondComplete
Enabled == {t \in AllToks : CanFeed(t)}

\* the split: indicator (normalised) and grouping of every part, in written order; a bare indicator has grouping <<>>
PartOf(i, c) == <<Norm(i), IF c = <<>> THEN <<>> ELSE Split(c)>>
Parts == IF kind = "cond" THEN <<>>
         ELSE [j \in 1..(Len(done) + 1) |-> IF j <= Len(done) THEN PartOf(done[j][1], done[j][2]) ELSE PartOf(ind, cur)]
CondTree == IF kind = "cond" /\ CondComplete THEN Split(cur) ELSE <<>>

(* invariants *)
\* every condition part of an accepting state is a well-formed condition expression (CondLang), and conversely the
\* incremental bookkeeping accepts nothing else
PartsWellFormed == Accepting =>
   /\ \A j \in 1..Len(done) : WellFormed(done[j][2])
   /\ (cur # <<>> => WellFormed(cur))
ViabilityIsExact == (cur # <<>>) => (CondComplete = WellFormed(cur))
\* nothing is dropped or reordered: indicators and condition tokens concatenate back to the input
RECURSIVE Concat(_)
Concat(ps) == IF ps = <<>> THEN <<>> ELSE <<ps[1][1]>> \o ps[1][2] \o Concat(Tail(ps))
SplitIsLossless == kind \in {"modal", "prefix"} => Concat(Append(done, <<ind, cur>>)) = consumed
\* only modal-mark parts can be chained; a prefix operator stands alone
OnePrefixPart == kind = "prefix" => done = <<>>
BareOnlyLast == \A j \in 1..Len(done) : done[j][2] # <<>>

VARIABLE obs
\* (written as an operator of VALUES: TLC evaluates recursive operators on primed variables very slowly)
ObsOf(k, dn, i, c, ex, dp) ==
  LET complete == c # <<>> /\ ex = "operator" /\ dp = 0
      acc == CASE k = "start" -> FALSE [] k \in {"modal", "prefix"} -> complete \/ c = <<>> [] k = "cond" -> complete
      en == {t \in AllToks :
               LET cc == CASE t \in {"a", "("} -> TRUE [] t = ")" -> ex = "operator" /\ dp > 0 [] OTHER -> ex = "operator" IN
               CASE k = "start" -> t # ")"
                 [] k = "modal" -> IF t \in Modal THEN complete ELSE cc
                 [] OTHER -> t \notin Modal /\ cc}
  IN [acc |-> acc, en |-> en,
      parts |-> IF acc /\ k # "cond"
                THEN [j \in 1..(Len(dn) + 1) |-> IF j <= Len(dn) THEN PartOf(dn[j][1], dn[j][2]) ELSE PartOf(i, c)]
                ELSE <<>>,
      cond |-> IF acc /\ k = "cond" THEN Split(c) ELSE <<>>]
Obs == ObsOf(kind, done, ind, cur, expect, depth)
ObsIsConsistent == obs.acc = Accepting /\ obs.en = Enabled /\ (Accepting => obs.parts = Parts /\ obs.cond = CondTree)
MCInit == Init /\ obs = Obs
MCNext == Next /\ obs' = ObsOf(kind', done', ind', cur', expect', depth')
=============================================================================
