CONSTANTS
 MaxLeaves = 3
 RcKeys = {1, 2}
 HintKeys = {501}
 FcKeys = {901, 902}
 Laws = TRUE
INIT Init
NEXT Next
INVARIANT TypeOK
INVARIANT HintTextCarriesTheHints
INVARIANT MachineAgreesWithDen
INVARIANT NeutralIffNoRC
INVARIANT ValidityIsStructural
INVARIANT FcMeaning
INVARIANT C05Laws
CHECK_DEADLOCK FALSE
