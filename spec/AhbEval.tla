------------------------------- MODULE AhbEval -------------------------------
(* Evaluation of an AHB expression (property C09, second half): which part decides.

   An AHB expression is a list of parts (see AhbSplit.tla). Each part is [ind, bare, st]:
     ind  - normalised indicator MUSS/SOLL/KANN/X/O/U,
     bare - TRUE for an indicator without condition expression,
     st   - four-valued state of the part's own condition expression (Eval.tla), irrelevant for bare parts.
   The code evaluates ALL parts (one gather) and then walks the result list: the machine below has one action per
   evaluated part (EvalPart, in any order - the order is a schedule, C12) and the final Select action. *)
EXTENDS Naturals, Sequences, FiniteSets, TLC
CONSTANTS MaxParts

ModalInds == {"MUSS", "SOLL", "KANN"}
PrefixInds == {"X", "O", "U"}
States == {"F", "U", "K", "N"}

\* (fulfilled, conditional) of one part on its own: Eval!Outcome; a bare indicator counts as fulfilled and unconditional
PartOutcome(p) == IF p.bare THEN <<"true", "false">>
                  ELSE CASE p.st = "F" -> <<"true", "true">> [] p.st = "N" -> <<"true", "false">>
                         [] p.st = "U" -> <<"false", "true">> [] p.st = "K" -> <<"none", "none">>
Fulfilled(p) == PartOutcome(p)[1] = "true"

VARIABLES parts,      \* the expression, built part by part (history = replay input)
          closed,     \* no further part may follow (prefix-operator expression or bare last mark)
          result      \* <<>> until Select ran; then [index, ind, fulfilled, conditional]
vars == <<parts, closed, result>>

Init == parts = <<>> /\ closed = FALSE /\ result = <<>>

AddModal(ind, bare, st) ==
  /\ result = <<>> /\ ~closed /\ Len(parts) < MaxParts
  /\ parts' = Append(parts, [ind |-> ind, bare |-> bare, st |-> IF bare THEN "N" ELSE st])
  /\ closed' = bare                                   \* a bare mark is only allowed at the end
  /\ UNCHANGED result
AddPrefix(ind, bare, st) ==
  /\ result = <<>> /\ parts = <<>>
  /\ parts' = <<[ind |-> ind, bare |-> bare, st |-> IF bare THEN "N" ELSE st]>>
  /\ closed' = TRUE /\ UNCHANGED result

\* the deciding part: the first fulfilled one, otherwise the last
Sel(ps) == IF \E i \in 1..Len(ps) : Fulfilled(ps[i])
           THEN CHOOSE i \in 1..Len(ps) : Fulfilled(ps[i]) /\ \A j \in 1..(i - 1) : ~Fulfilled(ps[j])
           ELSE Len(ps)
ResultOf(ps) ==
  LET i == Sel(ps)
      o == PartOutcome(ps[i])
  IN [index |-> i, ind |-> ps[i].ind, fulfilled |-> o[1],
      \* with more than one part the code marks a FULFILLED selected part conditional even if it is not on its own
      \* (e.g. "Muss[1] Kann"); C09 speaks of the requirement outcome, so the flag is only compared for single parts
      conditional |-> IF Len(ps) > 1 /\ o[1] = "true" THEN "true" ELSE o[2]]

Select == /\ result = <<>> /\ parts # <<>>
          /\ result' = ResultOf(parts) /\ UNCHANGED <<parts, closed>>

Next == \/ \E ind \in ModalInds, bare \in BOOLEAN, st \in States : AddModal(ind, bare, st)
        \/ \E ind \in PrefixInds, bare \in BOOLEAN, st \in States : AddPrefix(ind, bare, st)
        \/ Select
Spec == Init /\ [][Next]_vars

(* invariants *)
SelectedIsFirstFulfilledElseLast ==
  result # <<>> =>
     /\ result.index \in 1..Len(parts)
     /\ \A j \in 1..(result.index - 1) : ~Fulfilled(parts[j])
     /\ (~Fulfilled(parts[result.index]) => result.index = Len(parts))
     /\ result.ind = parts[result.index].ind
\* parts after the deciding one are irrelevant (prefix stability), parts before it are all not fulfilled
LaterPartsIrrelevant ==
  result # <<>> => \A n \in result.index..Len(parts) :
     LET r == ResultOf(SubSeq(parts, 1, n)) IN
     Fulfilled(parts[result.index]) => (r.index = result.index /\ r.ind = result.ind /\ r.fulfilled = result.fulfilled)
\* only the documented shapes are built
Shape == /\ (\E i \in 1..Len(parts) : parts[i].ind \in PrefixInds) => Len(parts) = 1
         /\ \A i \in 1..(Len(parts) - 1) : ~parts[i].bare
=============================================================================
