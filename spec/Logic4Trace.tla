---------------------------- MODULE Logic4Trace ----------------------------
(* Code -> spec: every line of the ndjson file $TRACE_FILE is one recorded run of the real operators
   ({"id": n, "events": [{"op","a","b","r"}, ...]}); a run is accepted iff every event is the corresponding
   Logic4 operator applied to the logged operands with exactly the logged result. Accepted ids are printed;
   with VERIF_DIAG=1 the position reached and the spec's expected value are printed for every step. *)
EXTENDS Logic4, Json, IOUtils, Sequences
Traces == ndJsonDeserialize(IOEnv.TRACE_FILE)
Diag == IOEnv.VERIF_DIAG = "1"
VARIABLES tid, i
vars == <<tid, i>>
Events == Traces[tid].events
Init == tid \in 1..Len(Traces) /\ i = 1
Step == /\ i <= Len(Events)
        /\ LET e == Events[i] IN
             /\ e.op \in Ops /\ e.a \in V /\ e.b \in V
             /\ (Diag => PrintT(<<"AT", Traces[tid].id, i, Apply(e.op, e.a, e.b)>>))
             /\ Apply(e.op, e.a, e.b) = e.r
        /\ i' = i + 1 /\ UNCHANGED tid
Next == Step
Accepted == (i = Len(Events) + 1) => PrintT(<<"ACC", Traces[tid].id>>)
=============================================================================
