CONSTANTS
 Kinds = {"rc", "fc", "hints", "pkg"}
 Formats = {"UTILMD", "MSCONS"}
 Versions = {"FV2210"}
 MaxInputs = 3
INIT MCInit
NEXT MCNext
INVARIANT AtMostOnePerKey
INVARIANT KindsAreSeparate
CHECK_DEADLOCK FALSE
