---------------------------- MODULE Logic4MC ----------------------------
(* State machine around Logic4 so that TLC enumerates every operator application as a state (with the result in
   the state) for the spec -> code replay: the table in the dump is the oracle the real operators are compared with. *)
EXTENDS Logic4
VARIABLES op, a, b, r
vars == <<op, a, b, r>>
Init == op \in Ops /\ a \in V /\ b \in V /\ r = Apply(op, a, b)
Pick == \E o \in Ops, x \in V, y \in V : op' = o /\ a' = x /\ b' = y /\ r' = Apply(o, x, y)
Next == Pick
TypeOK == r \in V /\ r = Apply(op, a, b)
ResultClosed == (a \in B /\ b \in B) => r \in B
=========================================================================
