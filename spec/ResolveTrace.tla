----------------------------- MODULE ResolveTrace -----------------------------
(* Code -> spec for Resolve.tla on long expressions: {"id", "ts": [tokens], "tree": the real resolver's tree in n-ary normal form with token names as leaves |
   ["unresolvable", []]}.  Accepted iff the logged tree is SubstTree(SplitT(ts)) (= SplitT(SubstTok(ts)) by the substitution lemma), or the log says
   "unresolvable" and the expression uses a package the table does not know. *)
EXTENDS Resolve, Json, IOUtils
Traces == ndJsonDeserialize(IOEnv.TRACE_FILE)
Diag == IOEnv.VERIF_DIAG = "1"
VARIABLES tid, done
T == Traces[tid]
TInit == tid \in 1..Len(Traces) /\ done = FALSE /\ ts = T.ts /\ expect = "operator" /\ depth = 0 /\ obs = <<>>
Expected == IF ~WellFormed(T.ts) THEN <<"malformed", <<>>>>
            ELSE IF ~Resolvable(T.ts) THEN <<"unresolvable", <<>>>>
            ELSE SubstTree(SplitT(T.ts))
TCheck == /\ ~done
          /\ (Diag => PrintT(<<"AT", T.id, 1, Expected>>))
          /\ Expected = T.tree
          /\ (Resolvable(T.ts) /\ WellFormed(T.ts) => SplitT(SubstTok(T.ts)) = T.tree)
          /\ done' = TRUE /\ UNCHANGED <<tid, ts, expect, depth, obs>>
Accepted == done => PrintT(<<"ACC", T.id>>)
===============================================================================
