----------------------------- MODULE EvalTrace -----------------------------
(* Code -> spec for Eval.tla. Every line of $TRACE_FILE is the recorded run of the real
   RequirementConstraintTransformer on one expression:
     {"id": n, "asg": [[key, "F"|"U"|"K"], ...],
      "events": [ {"op": "leaf", "kind", "key", "res": node}
                | {"op": "and"|"or"|"xor"|"then", "l": node, "r": node, "res": node | "err": "invalid"|"unsupported"} ]}
   with node = {"st", "kind", "fcx", "hint"} projected from the real objects AFTER each callback returned or raised.
   The trace actions are Eval's own actions (the spec machine runs its own stack); an event is accepted iff the
   machine is able to take the corresponding action from its current state, its operands are the logged operands and
   its result is the logged result. *)
EXTENDS Eval, Json, IOUtils
Traces == ndJsonDeserialize(IOEnv.TRACE_FILE)
Diag == IOEnv.VERIF_DIAG = "1"
VARIABLES tid, i
tvars == <<vars, tid, i>>

Events == Traces[tid].events
AsgOf(t) == LET ps == Traces[t].asg IN [k \in {ps[j][1] : j \in 1..Len(ps)} |-> ps[CHOOSE j \in 1..Len(ps) : ps[j][1] = k][2]]

TInit == /\ tid \in 1..Len(Traces) /\ i = 1
         /\ asg = AsgOf(tid) /\ prog = <<>> /\ stack = <<>> /\ trees = <<>> /\ err = Nil

Ev == Events[i]
Has(f) == f \in DOMAIN Ev
Say(x) == Diag => PrintT(<<"AT", Traces[tid].id, i, x>>)
NewTop == stack'[Len(stack')]
(* Logged nodes are compared with the machine's nodes by MEANING: same state, same kind, and a collected FC expression
   that is well-formed, mentions the same keys and has the same value under every truth assignment (C07 fixes the
   meaning, not the bracket structure). Hint texts are not compared: no listed property fixes them. *)
RECURSIVE WellFormedFcx(_)
WellFormedFcx(x) == \/ x = NilT
                    \/ (Len(x) = 2 /\ x[1] = "fc")
                    \/ (Len(x) = 3 /\ x[1] \in {"and", "or", "xor"} /\ x[2] # NilT /\ x[3] # NilT
                        /\ WellFormedFcx(x[2]) /\ WellFormedFcx(x[3]))
FcEquiv(x, y) == /\ WellFormedFcx(y)
                 /\ FcxKeys(x) = FcxKeys(y)
                 /\ \A b \in [FcxKeys(x) -> BOOLEAN] : FcVal(x, b) = FcVal(y, b)
NodeEq(mine, logged) == mine.st = logged.st /\ mine.kind = logged.kind /\ FcEquiv(mine.fcx, logged.fcx)
OperandsMatch == Top2 /\ NodeEq(L, Ev.l) /\ NodeEq(R, Ev.r)

TLeaf == /\ Ev.op = "leaf"
         /\ Say(LeafNode(Ev.kind, Ev.key, asg))
         /\ Push(Ev.kind, Ev.key)
         /\ NodeEq(NewTop, Ev.res)
TAnd  == /\ Ev.op = "and"
         /\ Say(IF Top2 THEN <<L, R, AndNode(L, R)>> ELSE <<"stack underflow">>)
         /\ OperandsMatch /\ AndA /\ NodeEq(NewTop, Ev.res)
TOrXor(op) ==
         /\ Ev.op = op
         /\ Say(IF Top2 THEN <<L, R, IF OrXorInvalid(L, R) THEN "invalid" ELSE OrXorNode(op, L, R)>> ELSE <<"stack underflow">>)
         /\ OperandsMatch /\ OrXorA(op)
         /\ IF Has("err") THEN err' = Ev.err ELSE (err' = Nil /\ NodeEq(NewTop, Ev.res))
TThen == /\ Ev.op = "then"
         /\ Say(IF Top2 THEN <<L, R, IF ThenSupported(L, R) THEN ThenNode(L, R) ELSE "unsupported">> ELSE <<"stack underflow">>)
         /\ OperandsMatch /\ ThenA
         /\ IF Has("err") THEN err' = Ev.err ELSE (err' = Nil /\ NodeEq(NewTop, Ev.res))

TNext == /\ i <= Len(Events)
         /\ (TLeaf \/ TAnd \/ TOrXor("or") \/ TOrXor("xor") \/ TThen)
         /\ i' = i + 1 /\ UNCHANGED tid
\* a run must end with one evaluated tree or with the error raised by the last callback
Done == i = Len(Events) + 1 /\ ((err = Nil /\ Len(stack) = 1) \/ err # Nil)
Accepted == Done => PrintT(<<"ACC", Traces[tid].id>>)
\* the invariants of Eval hold on every recorded run as well (checked at every step of every trace)
=============================================================================
