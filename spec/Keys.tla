-------------------------------- MODULE Keys --------------------------------
(* Key classes, key extraction and enumeration of all possible content evaluation results (property C18).

   Class(n): the documented number ranges. An "expression" is abstracted to the sequence of its operands in reading order
   (operators and brackets are irrelevant for extraction): [t |-> "key"|"pkg"|"time", n |-> number].
   Extract lists every condition key once per category in ascending NUMERIC order, packages and time conditions once each;
   any key outside the ranges rejects the whole expression.  AllCers is the Cartesian product the validity check relies on. *)
EXTENDS Naturals, Sequences, FiniteSets, SequencesExt, TLC
CONSTANTS Pool,       \* operands the generator may use
          MaxLen,
          MaxKey      \* Class is checked on 0..MaxKey

Class(n) == IF (1 <= n /\ n <= 499) \/ (2000 <= n /\ n <= 2499) THEN "rc"
            ELSE IF 500 <= n /\ n <= 900 THEN "hint"
            ELSE IF 901 <= n /\ n <= 999 THEN "fc"
            ELSE "reject"
\* partition: every number has exactly one class, the boundaries are where the documentation puts them
ASSUME \A n \in 0..MaxKey : Class(n) \in {"rc", "hint", "fc", "reject"}
ASSUME Class(0) = "reject" /\ Class(1) = "rc" /\ Class(499) = "rc" /\ Class(500) = "hint" /\ Class(900) = "hint" /\ Class(901) = "fc"
       /\ Class(999) = "fc" /\ Class(1000) = "reject" /\ Class(1999) = "reject" /\ Class(2000) = "rc" /\ Class(2499) = "rc" /\ Class(2500) = "reject"
ASSUME Cardinality({n \in 0..MaxKey : Class(n) = "rc"}) = 499 + 500
ASSUME Cardinality({n \in 0..MaxKey : Class(n) = "hint"}) = 401
ASSUME Cardinality({n \in 0..MaxKey : Class(n) = "fc"}) = 99

VARIABLES ops          \* the operands of the expression built so far (history = replay input)
vars == <<ops>>
Init == ops = <<>>
Add(o) == Len(ops) < MaxLen /\ ops' = Append(ops, o)
Next == \E o \in Pool : Add(o)

Asc(S) == SetToSortSeq(S, LAMBDA a, b : a < b)
KeysOf(s, c) == {s[i].n : i \in {j \in 1..Len(s) : s[j].t = "key" /\ Class(s[j].n) = c}}
Rejected(s) == \E i \in 1..Len(s) : s[i].t = "key" /\ Class(s[i].n) = "reject"
Extract(s) == [rc |-> Asc(KeysOf(s, "rc")), hint |-> Asc(KeysOf(s, "hint")), fc |-> Asc(KeysOf(s, "fc")),
               pkg |-> {s[i].n : i \in {j \in 1..Len(s) : s[j].t = "pkg"}},
               time |-> {s[i].n : i \in {j \in 1..Len(s) : s[j].t = "time"}}]
\* joining two extracts (CategorizedKeyExtract.__add__)
SeqSet(q) == {q[i] : i \in 1..Len(q)}
Join(a, b) == [rc |-> Asc(SeqSet(a.rc) \cup SeqSet(b.rc)), hint |-> Asc(SeqSet(a.hint) \cup SeqSet(b.hint)), fc |-> Asc(SeqSet(a.fc) \cup SeqSet(b.fc)),
               pkg |-> a.pkg \cup b.pkg, time |-> a.time \cup b.time]
\* the extract of a composed expression is the union of the extracts of its parts
UnionLaw == ~Rejected(ops) => \A i \in 0..Len(ops) : Extract(ops) = Join(Extract(SubSeq(ops, 1, i)), Extract(SubSeq(ops, i + 1, Len(ops))))
OncePerCategory == ~Rejected(ops) => LET e == Extract(ops) IN
   /\ \A i \in 1..(Len(e.rc) - 1) : e.rc[i] < e.rc[i + 1]
   /\ \A i \in 1..(Len(e.fc) - 1) : e.fc[i] < e.fc[i + 1]
   /\ \A i \in 1..(Len(e.hint) - 1) : e.hint[i] < e.hint[i + 1]
   /\ SeqSet(e.rc) \cap SeqSet(e.fc) = {} /\ SeqSet(e.rc) \cap SeqSet(e.hint) = {} /\ SeqSet(e.hint) \cap SeqSet(e.fc) = {}

\* all possible content evaluation results
AllCers(rc, fc) == [rc : [SeqSet(rc) -> {"F", "U", "K"}], fc : [SeqSet(fc) -> BOOLEAN]]
Pow(b, e) == IF e = 0 THEN 1 ELSE IF e = 1 THEN b ELSE IF e = 2 THEN b * b ELSE IF e = 3 THEN b * b * b ELSE b * b * b * b
ProductSize == (~Rejected(ops) /\ Len(Extract(ops).rc) <= 4 /\ Len(Extract(ops).fc) <= 4) =>
                  Cardinality(AllCers(Extract(ops).rc, Extract(ops).fc)) = Pow(3, Len(Extract(ops).rc)) * Pow(2, Len(Extract(ops).fc))

VARIABLE obs
ObsOf(s) == IF Rejected(s) THEN [rejected |-> TRUE, extract |-> <<>>, ncers |-> 0]
            ELSE [rejected |-> FALSE, extract |-> Extract(s),
                  ncers |-> Pow(3, Len(Extract(s).rc)) * Pow(2, Len(Extract(s).fc))]
MCInit == Init /\ obs = ObsOf(<<>>)
MCNext == Next /\ obs' = ObsOf(ops')
=============================================================================
