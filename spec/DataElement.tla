----------------------------- MODULE DataElement -----------------------------
(* End-to-end composition for ONE free-text data element (beyond the single listed properties; it composes what
   C09, C08, C13, C14 and C15 state separately):

        AHB expression --split--> parts --requirement evaluation--> (state, collected FC expression) per part
                       --format evaluation--> (fulfilled, message) per part --select--> deciding part
                       --map (indicator x outcome, SOLL flag)--> own status --combine with the segment's status-->
                       status --suffix from the entered input--> DataElementValidationResult

   A part is [ind, bare, st, fc]:
     ind  - MUSS/SOLL/KANN or PFX (prefix operator; only as single part),
     bare - indicator without condition expression,
     st   - four-valued state of the part's condition expression (Eval.tla: Den),
     fc   - "none": no format constraint collected, "ok"/"bad": the collected expression evaluates to true/false (FcEval.tla).
   The code evaluates requirement AND format constraints of EVERY part (one gather, any completion order) and selects afterwards;
   the machine has one action per stage so that recorded runs can be followed; the stage results are operators of the
   input so that the invariants speak about every generated input at once. *)
EXTENDS Naturals, Sequences, FiniteSets, TLC
CONSTANTS MaxParts

ModalInds == {"MUSS", "SOLL", "KANN"}
States == {"F", "U", "K", "N"}
Fcs == {"none", "ok", "bad"}
SegStatus == {"NONE", "REQUIRED", "OPTIONAL"}      \* FORBIDDEN segments are pruned before their data elements are looked at (C13)

Part(ind, bare, st, fc) == [ind |-> ind, bare |-> bare, st |-> IF bare THEN "N" ELSE st, fc |-> IF bare THEN "none" ELSE fc]

VARIABLES parts, closed,        \* the expression (generator, as in AhbEval.tla)
          inp, seg, soll,       \* entered input ("none"/"text"), status of the segment, soll_is_required
          stage,                \* "build" -> "evaluated" -> "selected" -> "mapped" -> "done"
          rcdone, fcdone,       \* which parts have their requirement / format evaluation finished (any order: one gather)
          out                   \* result record, filled stage by stage
vars == <<parts, closed, inp, seg, soll, stage, rcdone, fcdone, out>>

(* ------------------------------------------------------------------------------------------- stage functions *)
Ful(p) == IF p.bare THEN "T" ELSE CASE p.st \in {"F", "N"} -> "T" [] p.st = "U" -> "F" [] p.st = "K" -> "K"
Sel(ps) == IF \E i \in 1..Len(ps) : Ful(ps[i]) = "T"
           THEN CHOOSE i \in 1..Len(ps) : Ful(ps[i]) = "T" /\ \A j \in 1..(i - 1) : Ful(ps[j]) # "T"
           ELSE Len(ps)
\* documented mapping (Validation.tla: OwnStatus)
Own(ind0, ful, s) ==
  LET ind == IF ind0 = "SOLL" THEN (IF s THEN "MUSS" ELSE "KANN") ELSE ind0 IN
  CASE ful = "F" -> "FORBIDDEN"
    [] ful = "K" -> IF ind \in {"MUSS", "PFX"} THEN "ERROR" ELSE "OPTIONAL"
    [] ful = "T" -> IF ind \in {"MUSS", "PFX"} THEN "REQUIRED" ELSE "OPTIONAL"
Combine(p, c) == IF p \in {"NONE", "REQUIRED"} THEN c ELSE IF c = "REQUIRED" THEN "OPTIONAL" ELSE c
ResultOf(ps, i, sg, s) ==
  LET d == ps[Sel(ps)]
      own == Own(d.ind, Ful(d), s) IN
  IF own = "ERROR" THEN [status |-> "ERROR", fill |-> "", fmt |-> TRUE, msg |-> FALSE, sel |-> Sel(ps)]
  ELSE [status |-> Combine(sg, own), fill |-> IF i = "text" THEN "FILLED" ELSE "EMPTY",
        fmt |-> d.fc # "bad", msg |-> d.fc = "bad", sel |-> Sel(ps)]

(* -------------------------------------------------------------------------------------------------- machine *)
Init == /\ parts = <<>> /\ closed = FALSE /\ inp \in {"none", "text"} /\ seg \in SegStatus /\ soll \in BOOLEAN
        /\ stage = "build" /\ rcdone = {} /\ fcdone = {} /\ out = <<>>
AddModal(ind, bare, st, fc) ==
  /\ stage = "build" /\ ~closed /\ Len(parts) < MaxParts
  /\ parts' = Append(parts, Part(ind, bare, st, fc)) /\ closed' = bare
  /\ UNCHANGED <<inp, seg, soll, stage, rcdone, fcdone, out>>
AddPrefix(bare, st, fc) ==
  /\ stage = "build" /\ parts = <<>>
  /\ parts' = <<Part("PFX", bare, st, fc)>> /\ closed' = TRUE
  /\ UNCHANGED <<inp, seg, soll, stage, rcdone, fcdone, out>>
Start == /\ stage = "build" /\ parts # <<>> /\ stage' = "evaluating"
         /\ UNCHANGED <<parts, closed, inp, seg, soll, rcdone, fcdone, out>>
\* one gather over the parts; inside a part the format evaluation follows the requirement evaluation
EvalRc(i) == /\ stage = "evaluating" /\ i \in 1..Len(parts) /\ i \notin rcdone /\ rcdone' = rcdone \cup {i}
             /\ UNCHANGED <<parts, closed, inp, seg, soll, stage, fcdone, out>>
EvalFc(i) == /\ stage = "evaluating" /\ i \in rcdone /\ i \notin fcdone /\ fcdone' = fcdone \cup {i}
             /\ UNCHANGED <<parts, closed, inp, seg, soll, stage, rcdone, out>>
Select == /\ stage = "evaluating" /\ fcdone = 1..Len(parts)
          /\ stage' = "done" /\ out' = ResultOf(parts, inp, seg, soll)
          /\ UNCHANGED <<parts, closed, inp, seg, soll, rcdone, fcdone>>
Next == \/ \E ind \in ModalInds, bare \in BOOLEAN, st \in States, fc \in Fcs : AddModal(ind, bare, st, fc)
        \/ \E bare \in BOOLEAN, st \in States, fc \in Fcs : AddPrefix(bare, st, fc)
        \/ Start \/ Select
        \/ \E i \in 1..MaxParts : EvalRc(i) \/ EvalFc(i)
Spec == Init /\ [][Next]_vars

\* generator only (no interleavings of the gather): used for the replay dump
GenNext == \/ \E ind \in ModalInds, bare \in BOOLEAN, st \in States, fc \in Fcs : AddModal(ind, bare, st, fc)
           \/ \E bare \in BOOLEAN, st \in States, fc \in Fcs : AddPrefix(bare, st, fc)
           \/ /\ stage = "build" /\ parts # <<>> /\ stage' = "done" /\ out' = ResultOf(parts, inp, seg, soll)
              /\ rcdone' = {j \in 1..Len(parts) : TRUE} /\ fcdone' = {j \in 1..Len(parts) : TRUE} /\ UNCHANGED <<parts, closed, inp, seg, soll>>
GenSpec == Init /\ [][GenNext]_vars

(* ----------------------------------------------------------------------------------------------- invariants *)
Done == stage = "done"
\* the format verdict and its message belong to the deciding part, never to another part of the expression
FormatOfDecidingPart ==
  Done /\ out.status # "ERROR" => /\ out.fmt = (parts[out.sel].fc # "bad") /\ out.msg = ~out.fmt
                                  /\ \A j \in 1..(out.sel - 1) : Ful(parts[j]) # "T"
\* the suffix is decided by the entered input alone; the status by expression, flag and segment alone
SuffixFromInput == Done /\ out.status # "ERROR" => out.fill = (IF inp = "text" THEN "FILLED" ELSE "EMPTY")
\* the segment dominates: nothing is REQUIRED below an OPTIONAL segment; a forbidden outcome stays forbidden
SegmentDominates ==
  Done => /\ (seg = "OPTIONAL" => out.status # "REQUIRED")
          /\ (Ful(parts[out.sel]) = "F" => out.status = "FORBIDDEN")
\* soll_is_required = rewriting SOLL (C14) at the level of one element
Rewrite(ps, s) == [j \in 1..Len(ps) |-> [ps[j] EXCEPT !.ind = IF @ = "SOLL" THEN (IF s THEN "MUSS" ELSE "KANN") ELSE @]]
SollIsRewriting == Done => \A s \in BOOLEAN : ResultOf(parts, inp, seg, s) = ResultOf(Rewrite(parts, s), inp, seg, ~s)
\* an undetermined outcome aborts only under MUSS / prefix operator (after rewriting), and only if that part decides
ErrorOnlyWhenUndeterminedMust ==
  Done => (out.status = "ERROR" <=> /\ Ful(parts[out.sel]) = "K"
                                    /\ parts[out.sel].ind \in (IF soll THEN {"MUSS", "SOLL", "PFX"} ELSE {"MUSS", "PFX"}))
\* every part has both evaluations finished, format after requirement, before anything is selected (one gather, any order)
GatherDiscipline == /\ fcdone \subseteq rcdone
                    /\ (Done => rcdone = 1..Len(parts) /\ fcdone = rcdone)
\* parts after the deciding one cannot change the result if the deciding part is fulfilled
LaterPartsIrrelevant ==
  Done /\ Ful(parts[out.sel]) = "T" =>
     \A n \in out.sel..Len(parts) : LET r == ResultOf(SubSeq(parts, 1, n), inp, seg, soll) IN
        r.status = out.status /\ r.fmt = out.fmt /\ r.sel = out.sel
=============================================================================
