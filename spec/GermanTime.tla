----------------------------- MODULE GermanTime -----------------------------
(* German local time, Stromtag / Gastag limits (property C20): pure integer arithmetic, independent of any time-zone library.

   An instant is t = day * 86400 + sod, seconds since 1996-01-01T00:00:00Z (day 0 was a Monday); everything fits into
   TLC's 32-bit integers up to 2037. German local time is UTC+1 (CET), and UTC+2 (CEST) from 01:00 UTC on the last Sunday of
   March until 01:00 UTC on the last Sunday of October (the EU rule, in force for the whole range).
     932/933 are fulfilled iff the instant is 00:00:00 German local time, 934/935 iff it is 06:00:00 German local time,
     931 iff the notation uses a zero UTC offset.  How the instant is WRITTEN (which offset) is the renderer's business:
     the verdict below is a function of (day, sod) only - that is the notation invariance the property demands. *)
EXTENDS Integers, Sequences, FiniteSets, TLC
CONSTANTS Days,      \* the days (since 1996-01-01) the generator enumerates
          Sods       \* the seconds of the (UTC) day the generator enumerates

Years == 1996..2037
IsLeap(y) == y % 4 = 0                                     \* exact on 1996..2037 (2000 is a leap year)
DaysBeforeYear(y) == 365 * (y - 1996) + ((y - 1) \div 4 - 498)
Cum == <<0, 31, 59, 90, 120, 151, 181, 212, 243, 273, 304, 334>>
DaysFromCivil(y, m, d) == DaysBeforeYear(y) + Cum[m] + (IF IsLeap(y) /\ m > 2 THEN 1 ELSE 0) + d - 1
Dow(day) == day % 7                                        \* 0 = Monday ... 6 = Sunday
LastSunday(y, m) == LET d31 == DaysFromCivil(y, m, 31) IN d31 - ((Dow(d31) + 1) % 7)      \* March and October have 31 days
YearOfDay(day) == CHOOSE y \in Years : DaysBeforeYear(y) <= day /\ day < DaysBeforeYear(y + 1)
CestStart(y) == LastSunday(y, 3) * 86400 + 3600            \* 01:00 UTC
CestEnd(y)   == LastSunday(y, 10) * 86400 + 3600
IsCEST(t) == LET y == YearOfDay(t \div 86400) IN CestStart(y) <= t /\ t < CestEnd(y)
LocalSeconds(t) == t + 3600 + (IF IsCEST(t) THEN 3600 ELSE 0)
LocalSod(t) == LocalSeconds(t) % 86400
IsStromtagLimit(t) == LocalSod(t) = 0
IsGastagLimit(t)   == LocalSod(t) = 6 * 3600
ZeroOffset(offsetMinutes) == offsetMinutes = 0             \* 931

\* sanity of the calendar arithmetic against known dates
ASSUME DaysFromCivil(1996, 1, 1) = 0 /\ DaysFromCivil(2000, 2, 29) = 1520 /\ DaysFromCivil(2000, 3, 1) = 1521
ASSUME DaysFromCivil(2038, 1, 1) = 15341
ASSUME LastSunday(1996, 3) = DaysFromCivil(1996, 3, 31) /\ LastSunday(1996, 10) = DaysFromCivil(1996, 10, 27)
ASSUME LastSunday(2021, 3) = DaysFromCivil(2021, 3, 28) /\ LastSunday(2021, 10) = DaysFromCivil(2021, 10, 31)
ASSUME LastSunday(2022, 3) = DaysFromCivil(2022, 3, 27) /\ LastSunday(2022, 10) = DaysFromCivil(2022, 10, 30)
ASSUME LastSunday(2024, 3) = DaysFromCivil(2024, 3, 31) /\ LastSunday(2024, 10) = DaysFromCivil(2024, 10, 27)
ASSUME LastSunday(2037, 3) = DaysFromCivil(2037, 3, 29) /\ LastSunday(2037, 10) = DaysFromCivil(2037, 10, 25)
ASSUME \A y \in Years : Dow(LastSunday(y, 3)) = 6 /\ Dow(LastSunday(y, 10)) = 6
                        /\ LastSunday(y, 3) > DaysFromCivil(y, 3, 24) /\ LastSunday(y, 10) > DaysFromCivil(y, 10, 24)

\* the instant at which German local day D (counted like `day`) begins: exactly one per civil day, 23/24/25 hours apart
StromStart(D) == IF IsCEST(D * 86400 - 7200) THEN D * 86400 - 7200 ELSE D * 86400 - 3600
GasStart(D) == IF IsCEST(D * 86400 + 6 * 3600 - 7200) THEN D * 86400 + 6 * 3600 - 7200 ELSE D * 86400 + 6 * 3600 - 3600
OneLimitPerDay == \A D \in 1..15339 :
   /\ IsCEST(D * 86400 - 7200) = IsCEST(D * 86400 - 3600)          \* exactly one of the two readings of local midnight is consistent
   /\ IsCEST(D * 86400 + 6 * 3600 - 7200) = IsCEST(D * 86400 + 6 * 3600 - 3600)
   /\ IsStromtagLimit(StromStart(D)) /\ IsGastagLimit(GasStart(D))
   /\ LET len == StromStart(D + 1) - StromStart(D) IN
        /\ len \in {23 * 3600, 24 * 3600, 25 * 3600}
        /\ (len = 23 * 3600) = (\E y \in Years : D = LastSunday(y, 3))
        /\ (len = 25 * 3600) = (\E y \in Years : D = LastSunday(y, 10))
   /\ LET glen == GasStart(D + 1) - GasStart(D) IN                   \* the Gastag that contains the switch starts the day before
        /\ glen \in {23 * 3600, 24 * 3600, 25 * 3600}
        /\ (glen = 23 * 3600) = (\E y \in Years : D + 1 = LastSunday(y, 3))
        /\ (glen = 25 * 3600) = (\E y \in Years : D + 1 = LastSunday(y, 10))
ASSUME OneLimitPerDay

\* days worth looking at in the quick tier: around both switch days, around new year and the end of February
SpecialDays == UNION {{LastSunday(y, 3) - 1, LastSunday(y, 3), LastSunday(y, 3) + 1, LastSunday(y, 10) - 1, LastSunday(y, 10), LastSunday(y, 10) + 1,
                       DaysFromCivil(y, 1, 1), DaysFromCivil(y, 12, 31), DaysFromCivil(y, 2, 28), DaysFromCivil(y, 3, 1), DaysFromCivil(y, 7, 1)} : y \in Years}

VARIABLES day, sod, v
vars == <<day, sod, v>>
Verdicts(d, s) == LET t == d * 86400 + s IN
                  [strom |-> IsStromtagLimit(t), gas |-> IsGastagLimit(t), cest |-> IsCEST(t), localsod |-> LocalSod(t)]
Init == day \in Days /\ sod \in Sods /\ v = Verdicts(day, sod)
Next == UNCHANGED vars
\* a limit of one kind is never a limit of the other; limits only occur at full hours 22/23 resp. 04/05 UTC
Exclusive == ~(v.strom /\ v.gas)
OnlyAtTheTwoCandidateHours == /\ (v.strom => sod \in {22 * 3600, 23 * 3600})
                              /\ (v.gas => sod \in {4 * 3600, 5 * 3600})
                              /\ (v.strom = ((sod = 22 * 3600 /\ v.cest) \/ (sod = 23 * 3600 /\ ~v.cest)))
                              /\ (v.gas = ((sod = 4 * 3600 /\ v.cest) \/ (sod = 5 * 3600 /\ ~v.cest)))
=============================================================================
