--------------------------- MODULE MC_Validation ---------------------------
(* Model instance for Validation.tla (constants that are not expressible in a .cfg file). *)
EXTENDS Validation
L(i, f) == [ind |-> i, ful |-> f]
AllLabels == {L(i, f) : i \in {"MUSS", "SOLL", "KANN", "PFX"}, f \in {"T", "F", "K"}} \cup {L("INV", "T")}
SmallLabels == {L("MUSS", "T"), L("MUSS", "F"), L("SOLL", "T"), L("KANN", "T"), L("SOLL", "K"), L("INV", "T")}
Pools2 == {<<"T">>, <<"F">>, <<"T", "F">>, <<"F", "T">>, <<"F", "F">>, <<"T", "T">>, <<"I", "F">>, <<"K", "T">>}
PoolInputs3 == {"none", "q1", "q2", "zz"}
=============================================================================
