CONSTANTS
 MaxLeaves = 100000
 RcKeys = {1}
 HintKeys = {501}
 FcKeys = {901}
 Laws = FALSE
INIT TInit
NEXT TCheck
CONSTRAINT Accepted
CHECK_DEADLOCK FALSE
