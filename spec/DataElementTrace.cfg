CONSTANTS
 MaxParts = 0
INIT TInit
NEXT Step
CONSTRAINT Accepted
INVARIANT GatherDiscipline
INVARIANT FormatOfDecidingPart
CHECK_DEADLOCK FALSE
