CONSTANTS
 MaxParts = 0
INIT TInit
NEXT TCheck
CONSTRAINT Accepted
CHECK_DEADLOCK FALSE
