--------------------------- MODULE ValidationTrace ---------------------------
(* Code -> spec for Validation.tla on AHBs far larger than the exhaustive bound: every line of $TRACE_FILE is
     {"id", "nodes": [node ...] (the encoding of Validation.tla), "soll": bool, "result": [entry ...] | "error"}
   - the AHB a seeded generator built (5 to 30 nodes, any nesting) and the result list the REAL validate_deep_anwendungshandbuch
   returned for it. The run is accepted iff the logged result is exactly Validate(nodes, soll). *)
EXTENDS Validation, Json, IOUtils
Traces == ndJsonDeserialize(IOEnv.TRACE_FILE)
Diag == IOEnv.VERIF_DIAG = "1"
VARIABLES tid, done
T == Traces[tid]
TInit == tid \in 1..Len(Traces) /\ done = FALSE /\ nodes = T.nodes /\ obs = <<>>
Expected == Validate(T.nodes, T.soll)
\* first position at which the logged list differs from the documented one (for diagnostics)
FirstDiff(a, b) == IF \E i \in 1..Len(a) : i > Len(b) \/ a[i] # b[i]
                   THEN CHOOSE i \in 1..Len(a) : (i > Len(b) \/ a[i] # b[i]) /\ \A j \in 1..(i - 1) : j <= Len(b) /\ a[j] = b[j]
                   ELSE Len(a) + 1
TCheck == /\ ~done
          /\ (Diag => PrintT(<<"AT", T.id, FirstDiff(Expected, T.result), IF FirstDiff(Expected, T.result) <= Len(Expected) THEN Expected[FirstDiff(Expected, T.result)] ELSE "none">>))
          /\ Expected = T.result
          /\ done' = TRUE /\ UNCHANGED <<tid, nodes, obs>>
Accepted == done => PrintT(<<"ACC", T.id>>)
==============================================================================
