-------------------------- MODULE EvalResultTrace --------------------------
(* Code -> spec on the level of RESULTS (the second level of the trace validation of C04-C07): when the recorded callbacks of a run are not a
   behaviour of Eval.tla's machine (EvalTrace) that alone does not contradict a listed property - an implementation may evaluate lazily, share
   equal sub-expressions, hand place-holders to its callbacks or not use callbacks at all. Such a run is decided here, on what the properties
   talk about: every line of $TRACE_FILE is
     {"id", "asg": [[key, "F"|"U"|"K"], ...], "tree": the expression's syntax tree in Eval.tla's form (["leaf", kind, key] | [op, l, r]),
      "final": {"err": "nil"|"invalid"|"unsupported", "st": "F"|"U"|"K"|"N", "fcx": collected FC expression AST or []}}
   and it is accepted iff
     - an error was raised exactly when the tree is structurally invalid / outside the supported domain (C06), of a class the tree explains;
     - otherwise the state is Den(tree, asg) (C04) and the collected format-constraint expression is well-formed, mentions only keys of the
       tree and has the value of the direct reading FcRead under every truth assignment (C07). *)
EXTENDS Eval, Json, IOUtils
Traces == ndJsonDeserialize(IOEnv.TRACE_FILE)
Diag == IOEnv.VERIF_DIAG = "1"
VARIABLES tid, done
T == Traces[tid]
AsgOf(t) == LET ps == t.asg IN [k \in {ps[j][1] : j \in 1..Len(ps)} |-> ps[CHOOSE j \in 1..Len(ps) : ps[j][1] = k][2]]
TInit == tid \in 1..Len(Traces) /\ done = FALSE /\ asg = AsgOf(T) /\ prog = <<>> /\ stack = <<>> /\ trees = <<>> /\ err = Nil
ErrOk == IF T.final.err = "nil" THEN SValid(T.tree) /\ InDom(T.tree)
         ELSE IF T.final.err = "invalid" THEN ~SValid(T.tree)
         ELSE T.final.err = "unsupported" /\ ~InDom(T.tree)
FcKeysOf(t) == TreeFcKeys(t)
RECURSIVE FcxWellFormedOver(_, _)
FcxWellFormedOver(x, K) == \/ x = NilT
                           \/ (Len(x) = 2 /\ x[1] = "fc" /\ x[2] \in K)
                           \/ (Len(x) = 3 /\ x[1] \in {"and", "or", "xor"} /\ x[2] # NilT /\ x[3] # NilT
                               /\ FcxWellFormedOver(x[2], K) /\ FcxWellFormedOver(x[3], K))
ValueOk == T.final.err = "nil" =>
             /\ T.final.st = Den(T.tree, asg)
             /\ FcxWellFormedOver(T.final.fcx, FcKeysOf(T.tree))
             /\ \A b \in [FcKeysOf(T.tree) -> BOOLEAN] : FcVal(T.final.fcx, b) = FcRead(T.tree, asg, b)
Expected == [err |-> IF ~SValid(T.tree) THEN "invalid" ELSE IF ~InDom(T.tree) THEN "unsupported" ELSE "nil",
             st |-> IF SValid(T.tree) /\ InDom(T.tree) THEN Den(T.tree, asg) ELSE "-"]
TCheck == /\ ~done
          /\ (Diag => PrintT(<<"AT", T.id, 1, Expected>>))
          /\ ErrOk /\ ValueOk
          /\ done' = TRUE /\ UNCHANGED <<tid, vars>>
Accepted == done => PrintT(<<"ACC", T.id>>)
=============================================================================
