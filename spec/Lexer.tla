------------------------------- MODULE Lexer -------------------------------
(* The condition-expression language at CHARACTER level (property C02), as a deterministic machine over character
   classes. It produces the token sequence CondLang talks about and tracks viability, so its reachable states are exactly
   the viable character prefixes up to MaxChars; a class that is not enabled makes every continuation ill-formed.

   Character classes (the harness picks concrete representatives):
     "[" "]" "(" ")"     brackets
     "0" "d13" "d49"     digits 0 / 1-3 / 4-9     (UB1..UB3 only; a repeatability's upper bound has no leading zero)
     "P" "B" "."         package marker, second letter of UB, repeatability dots
     "U"                 upper-case U: AND operator outside [ ], first letter of UB inside
     "u"                 lower-case u and the symbol for AND      (operator only)
     "O" "X"             o/O/OR-symbol, x/X/XOR-symbol
     "w"                 whitespace: blank, tab, line feed, carriage return, form feed
     "bad"               anything else (lower-case p/b, other letters, other Unicode, other control characters)
   Whitespace is skipped between lexical units ([, key, repeatability, ], brackets, operators) and nowhere else. *)
EXTENDS CondLang
CONSTANTS MaxChars
Classes == {"[", "]", "(", ")", "0", "d13", "d49", "P", "B", ".", "U", "u", "O", "X", "w", "bad"}
Digits == {"0", "d13", "d49"}

VARIABLES chars,    \* history: character classes consumed so far (the replay input)
          mode,     \* "out" or a position inside [ ... ]
          toks,     \* tokens emitted so far (CondLang alphabet)
          expect,   \* "operand" | "operator"   (viability of toks, kept incrementally)
          depth     \* open round brackets
vars == <<chars, mode, toks, expect, depth>>

Init == chars = <<>> /\ mode = "out" /\ toks = <<>> /\ expect = "operand" /\ depth = 0

\* effect of character class c in the current mode: the next mode, or "dead" if c is not allowed here
Inside(m, c) ==
  CASE m = "lb"    -> IF c = "w" THEN "lb" ELSE IF c \in Digits THEN "num" ELSE IF c = "U" THEN "tU" ELSE "dead"
    [] m = "num"   -> IF c \in Digits THEN "num" ELSE IF c = "P" THEN "pk" ELSE IF c = "w" THEN "endws"
                      ELSE IF c = "]" THEN "close" ELSE "dead"
    [] m = "pk"    -> IF c = "w" THEN "pkws" ELSE IF c \in Digits THEN "rep1" ELSE IF c = "]" THEN "close" ELSE "dead"
    [] m = "pkws"  -> IF c = "w" THEN "pkws" ELSE IF c \in Digits THEN "rep1" ELSE IF c = "]" THEN "close" ELSE "dead"
    [] m = "rep1"  -> IF c \in Digits THEN "rep1" ELSE IF c = "." THEN "dot1" ELSE "dead"
    [] m = "dot1"  -> IF c = "." THEN "dot2" ELSE "dead"
    [] m = "dot2"  -> IF c \in {"d13", "d49"} THEN "rep2" ELSE "dead"
    [] m = "rep2"  -> IF c \in Digits THEN "rep2" ELSE IF c = "w" THEN "endws" ELSE IF c = "]" THEN "close" ELSE "dead"
    [] m = "tU"    -> IF c = "B" THEN "tUB" ELSE "dead"
    [] m = "tUB"   -> IF c = "d13" THEN "tdone" ELSE "dead"
    [] m = "tdone" -> IF c = "w" THEN "endws" ELSE IF c = "]" THEN "close" ELSE "dead"
    [] m = "endws" -> IF c = "w" THEN "endws" ELSE IF c = "]" THEN "close" ELSE "dead"

OperatorTok(c) == CASE c \in {"U", "u"} -> "U" [] c = "O" -> "O" [] c = "X" -> "X"

CanRead(c) ==
  IF mode = "out"
  THEN CASE c = "w" -> TRUE
         [] c \in {"[", "("} -> TRUE
         [] c = ")" -> expect = "operator" /\ depth > 0
         [] c \in {"U", "u", "O", "X"} -> expect = "operator"
         [] OTHER -> FALSE
  ELSE Inside(mode, c) # "dead"

Read(c) ==
  /\ Len(chars) < MaxChars
  /\ CanRead(c)
  /\ chars' = Append(chars, c)
  /\ IF mode = "out"
     THEN CASE c = "w" -> UNCHANGED <<mode, toks, expect, depth>>
            [] c = "[" -> mode' = "lb" /\ UNCHANGED <<toks, expect, depth>>
            [] c = "(" -> toks' = Append(toks, "(") /\ expect' = "operand" /\ depth' = depth + 1 /\ UNCHANGED mode
            [] c = ")" -> toks' = Append(toks, ")") /\ expect' = "operator" /\ depth' = depth - 1 /\ UNCHANGED mode
            [] OTHER   -> toks' = Append(toks, OperatorTok(c)) /\ expect' = "operand" /\ UNCHANGED <<mode, depth>>
     ELSE IF Inside(mode, c) = "close"
          THEN mode' = "out" /\ toks' = Append(toks, "a") /\ expect' = "operator" /\ UNCHANGED depth
          ELSE mode' = Inside(mode, c) /\ UNCHANGED <<toks, expect, depth>>

Next == \E c \in Classes : Read(c)
Spec == Init /\ [][Next]_vars

Accepting == mode = "out" /\ expect = "operator" /\ depth = 0
Enabled == {c \in Classes : CanRead(c)}

\* the incremental viability bookkeeping agrees with the declarative token-level language of CondLang
AcceptsExactlyWellFormed == Accepting = (mode = "out" /\ WellFormed(toks))
DepthIsOpenBrackets == depth = Cardinality({i \in 1..Len(toks) : toks[i] = "("}) - Cardinality({i \in 1..Len(toks) : toks[i] = ")"})

\* observation for the replay
VARIABLE obs
Obs == [acc |-> Accepting, en |-> Enabled]
MCInit == Init /\ obs = Obs
MCNext == Next /\ obs' = Obs'
=============================================================================
