----------------------------- MODULE FcEvalTrace -----------------------------
(* Code -> spec for FcEval.tla: recorded callbacks of the real FormatConstraintTransformer.
   {"id", "events": [{"op":"leaf","key":k,"res":node} | {"op":"and"|"or"|"xor","l":node,"r":node,"res":node}]},
   node = {"ok": bool, "has_msg": bool}.  Message texts are compared for presence only. *)
EXTENDS FcEval, Json, IOUtils
Traces == ndJsonDeserialize(IOEnv.TRACE_FILE)
Diag == IOEnv.VERIF_DIAG = "1"
VARIABLES tid, i
Events == Traces[tid].events
Ev == Events[i]
Say(x) == Diag => PrintT(<<"AT", Traces[tid].id, i, x>>)
Abs(n) == [ok |-> n.ok, has_msg |-> n.msg # <<>>]
\* leaves are taken as logged (the C08 precondition is checked by the harness), compositions are computed by the machine
TInit == tid \in 1..Len(Traces) /\ i = 1 /\ b = [k \in {} |-> TRUE] /\ prog = <<>> /\ stack = <<>> /\ trees = <<>>
TLeaf == /\ Ev.op = "leaf"
         /\ stack' = Append(stack, [ok |-> Ev.res.ok, msg |-> IF Ev.res.has_msg THEN <<Ev.key>> ELSE <<>>])
         /\ prog' = Append(prog, <<"leaf", "fc", Ev.key>>) /\ trees' = Append(trees, <<"leaf", "fc", Ev.key>>)
         /\ UNCHANGED b
TComp(op) == /\ Ev.op = op
             /\ Say(IF Len(stack) >= 2 THEN <<Abs(stack[Len(stack) - 1]), Abs(stack[Len(stack)]),
                                              Abs(OpNode(op, stack[Len(stack) - 1], stack[Len(stack)]))>> ELSE <<"underflow">>)
             /\ Len(stack) >= 2
             /\ Abs(stack[Len(stack) - 1]) = Ev.l /\ Abs(stack[Len(stack)]) = Ev.r
             /\ Compose(op)
             /\ Abs(stack'[Len(stack')]) = Ev.res
TNext == i <= Len(Events) /\ (TLeaf \/ TComp("and") \/ TComp("or") \/ TComp("xor")) /\ i' = i + 1 /\ UNCHANGED tid
Done == i = Len(Events) + 1 /\ Len(stack) = 1
Accepted == Done => PrintT(<<"ACC", Traces[tid].id>>)
\* on traces whose leaves satisfy the precondition the invariant must hold at every step
LeavesOK == \A j \in 1..Len(Events) : Events[j].op = "leaf" => (Events[j].res.has_msg = ~Events[j].res.ok)
TraceMsgIffNotOk == LeavesOK => MsgIffNotOk
==============================================================================
