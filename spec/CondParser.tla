----------------------------- MODULE CondParser -----------------------------
(* The condition-expression language at token level (properties C01, C02).

   Tokens:  "a" (an operand: [n], [nP], [nPa..b] or [UBi] - told apart in Lexer.tla), "(", ")",
            "U" (AND: U/u/∧), "X" (XOR: X/x/⊻), "O" (OR: O/o/∨).  Juxtaposition of two operands is the implicit
            operator "then" ("then also").

   (1) An operator-precedence machine (shunting yard): Feed(tok) per token, Finish at the end. Its reachable states are
       exactly the VIABLE PREFIXES of the language up to MaxTok tokens; a token that is not enabled makes every
       continuation ill-formed.
   (2) Independently, the documented reading: WellFormed (local adjacency rules + balanced brackets) and Split (strip an
       enclosing bracket pair; otherwise split at all bracket-depth-0 occurrences of the lowest-ranking operator present:
       OR, else XOR, else AND, else juxtaposition; recurse).
   TLC checks that both agree on every reachable state, plus the structural form of the precedence sentence.

   Trees are in n-ary normal form: <<"leaf", <<i>>>> (i = number of the operand in reading order) or <<op, <<children>>>>,
   where a run of one operator is ONE node - "the grouping inside a run of one and the same operator is unspecified" -
   while a bracketed operand is always a node of its own. *)
EXTENDS CondLang

CONSTANTS MaxTok


(* ------------------------------------------------------------------------------------------------ the machine *)
VARIABLES consumed,   \* history: tokens fed so far (the replay input)
          ops,        \* operator stack: "(" | "or" | "xor" | "and" | "then"
          out,        \* operand stack: <<tree, bracketed>>
          expect,     \* "operand" | "operator"
          nops        \* number of operands read so far
vars == <<consumed, ops, out, expect, nops>>

\* combine the two topmost operands with operator o; an UNBRACKETED left operand of the same operator is extended
Mk(o, l, r) == IF ~l[2] /\ l[1][1] = o THEN <<o, Append(l[1][2], r[1])>> ELSE <<o, <<l[1], r[1]>>>>
Combine(o, s) == Append(SubSeq(s, 1, Len(s) - 2), <<Mk(o, s[Len(s) - 1], s[Len(s)]), FALSE>>)
RECURSIVE Reduce(_, _, _)     \* pop while the top operator binds at least as tightly as p (never past an open bracket)
Reduce(os, s, p) == IF os # <<>> /\ Last(os) # "(" /\ Prec(Last(os)) >= p
                    THEN Reduce(Front(os), Combine(Last(os), s), p)
                    ELSE <<os, s>>

Init == consumed = <<>> /\ ops = <<>> /\ out = <<>> /\ expect = "operand" /\ nops = 0

\* an operand (or an opening bracket) directly after a complete operand: implicit operator "then"
Implicit == IF expect = "operator" THEN LET r == Reduce(ops, out, Prec("then")) IN <<Append(r[1], "then"), r[2]>>
            ELSE <<ops, out>>

CanFeed(tok) ==
  CASE tok \in {"a", "("}      -> TRUE
    [] tok = ")"               -> expect = "operator" /\ \E i \in 1..Len(ops) : ops[i] = "("
    [] tok \in {"U", "X", "O"} -> expect = "operator"

Feed(tok) ==
  /\ Len(consumed) < MaxTok
  /\ CanFeed(tok)
  /\ consumed' = Append(consumed, tok)
  /\ CASE tok = "a" -> /\ ops' = Implicit[1]
                       /\ out' = Append(Implicit[2], <<Leaf(nops + 1), FALSE>>)
                       /\ expect' = "operator" /\ nops' = nops + 1
       [] tok = "(" -> /\ ops' = Append(Implicit[1], "(")
                       /\ out' = Implicit[2]
                       /\ expect' = "operand" /\ nops' = nops
       [] tok = ")" -> LET r == Reduce(ops, out, 1) IN          \* down to the matching "("
                       /\ ops' = Front(r[1])
                       /\ out' = [r[2] EXCEPT ![Len(r[2])] = <<r[2][Len(r[2])][1], TRUE>>]
                       /\ expect' = "operator" /\ nops' = nops
       [] OTHER     -> LET r == Reduce(ops, out, Prec(OpOf(tok))) IN
                       /\ ops' = Append(r[1], OpOf(tok))
                       /\ out' = r[2]
                       /\ expect' = "operand" /\ nops' = nops

Next == \E tok \in Toks : Feed(tok)
Spec == Init /\ [][Next]_vars

Accepting == expect = "operator" /\ \A i \in 1..Len(ops) : ops[i] # "("
Result == Reduce(ops, out, 1)[2][1][1]              \* meaningful iff Accepting
Enabled == {tok \in Toks : CanFeed(tok)}

(* ------------------------------------------------------------------------------------------------- invariants *)
\* C02 at token level: the machine accepts exactly the well-formed token sequences
AcceptsExactlyWellFormed == Accepting = WellFormed(consumed)
\* C01: the machine's grouping is the documented reading
MachineAgreesWithSplit == Accepting => Result = Split(consumed)

\* the precedence sentence in structural form: a child that is a same- or lower-ranking composition exists only where
\* the input had brackets; equivalently (on Split's n-ary form) an operand of rank r never has a child node of rank < r
\* unless that child stems from a bracket pair. Checked on the machine's bracket flags:
RECURSIVE Flat(_)
Flat(t) == IF t[1] = "leaf" THEN t[2]
           ELSE LET ch == t[2]
                    F[j \in 0..Len(ch)] == IF j = 0 THEN <<>> ELSE F[j - 1] \o Flat(ch[j])
                IN F[Len(ch)]
\* nothing dropped or reordered: the leaves of the result are the operands 1..n in reading order
YieldIsInput == Accepting => Flat(Result) = [j \in 1..nops |-> j]

RECURSIVE UnbracketedChildrenBindTighter(_, _)
\* spans of bracket pairs as pairs of operand numbers, to tell bracketed children from unbracketed ones
Spans(ts) == LET ps == Number(ts, 1, 0)
                 ds == Depths(ps, 1, 0)
                 Match(i) == CHOOSE j \in (i + 1)..Len(ps) : /\ ps[j][1] = ")" /\ ds[j] = ds[i]
                                                             /\ \A m \in (i + 1)..(j - 1) : ~(ps[m][1] = ")" /\ ds[m] = ds[i])
                 Ops(i, j) == {ps[k][2] : k \in {k2 \in i..j : ps[k2][1] = "a"}}
             IN {Ops(i, Match(i)) : i \in {k \in 1..Len(ps) : ps[k][1] = "("}}
LeafSet(t) == {Flat(t)[j] : j \in 1..Len(Flat(t))}
UnbracketedChildrenBindTighter(t, spans) ==
  IF t[1] = "leaf" THEN TRUE
  ELSE \A j \in 1..Len(t[2]) :
         LET c == t[2][j] IN
         /\ UnbracketedChildrenBindTighter(c, spans)
         /\ (c[1] # "leaf" /\ LeafSet(c) \notin spans) => Prec(c[1]) > Prec(t[1])
PrecedenceStructure == Accepting => UnbracketedChildrenBindTighter(Result, Spans(consumed))

\* redundant brackets do not change the grouping: wrapping the whole expression, or a single operand, in brackets
RedundantBrackets ==
  (Accepting /\ Len(consumed) + 2 <= MaxTok) =>
      /\ Split(<<"(">> \o consumed \o <<")">>) = Result
      /\ \A i \in {k \in 1..Len(consumed) : consumed[k] = "a"} :
            Split(SubSeq(consumed, 1, i - 1) \o <<"(", "a", ")">> \o SubSeq(consumed, i + 1, Len(consumed))) = Result
=============================================================================
