----------------------------- MODULE CondParser -----------------------------
(* The condition-expression language at token level (properties C01, C02).

   Tokens:  "a" (an operand: [n], [nP], [nPa..b] or [UBi] - told apart in Lexer.tla), "(", ")",
            "U" (AND: U/u/∧), "X" (XOR: X/x/⊻), "O" (OR: O/o/∨).  Juxtaposition of two operands is the implicit
            operator "then" ("then also").

   (1) An operator-precedence machine (shunting yard): Feed(tok) per token, Finish at the end. Its reachable states are
       exactly the VIABLE PREFIXES of the language up to MaxTok tokens; a token that is not enabled makes every
       continuation ill-formed.
   (2) Independently, the documented reading: WellFormed (local adjacency rules + balanced brackets) and Split (strip an
       enclosing bracket pair; otherwise split at all bracket-depth-0 occurrences of the lowest-ranking operator present:
       OR, else XOR, else AND, else juxtaposition; recurse).
   TLC checks that both agree on every reachable state, plus the structural form of the precedence sentence.

   Trees are in n-ary normal form: <<"leaf", <<i>>>> (i = number of the operand in reading order) or <<op, <<children>>>>,
   where a run of one operator is ONE node - "the grouping inside a run of one and the same operator is unspecified" -
   while a bracketed operand is always a node of its own. *)
EXTENDS Integers, Sequences, FiniteSets, TLC

CONSTANTS MaxTok

Toks == {"a", "(", ")", "U", "X", "O"}
OpOf(tok) == CASE tok = "U" -> "and" [] tok = "X" -> "xor" [] tok = "O" -> "or"
Prec(o) == CASE o = "or" -> 1 [] o = "xor" -> 2 [] o = "and" -> 3 [] o = "then" -> 4 [] o = "(" -> 0
Last(s)  == s[Len(s)]
Front(s) == SubSeq(s, 1, Len(s) - 1)

(* ------------------------------------------------------------------------------------------------ the machine *)
VARIABLES consumed,   \* history: tokens fed so far (the replay input)
          ops,        \* operator stack: "(" | "or" | "xor" | "and" | "then"
          out,        \* operand stack: <<tree, bracketed>>
          expect,     \* "operand" | "operator"
          nops        \* number of operands read so far
vars == <<consumed, ops, out, expect, nops>>

Leaf(i) == <<"leaf", <<i>>>>
\* combine the two topmost operands with operator o; an UNBRACKETED left operand of the same operator is extended
Mk(o, l, r) == IF ~l[2] /\ l[1][1] = o THEN <<o, Append(l[1][2], r[1])>> ELSE <<o, <<l[1], r[1]>>>>
Combine(o, s) == Append(SubSeq(s, 1, Len(s) - 2), <<Mk(o, s[Len(s) - 1], s[Len(s)]), FALSE>>)
RECURSIVE Reduce(_, _, _)     \* pop while the top operator binds at least as tightly as p (never past an open bracket)
Reduce(os, s, p) == IF os # <<>> /\ Last(os) # "(" /\ Prec(Last(os)) >= p
                    THEN Reduce(Front(os), Combine(Last(os), s), p)
                    ELSE <<os, s>>

Init == consumed = <<>> /\ ops = <<>> /\ out = <<>> /\ expect = "operand" /\ nops = 0

\* an operand (or an opening bracket) directly after a complete operand: implicit operator "then"
Implicit == IF expect = "operator" THEN LET r == Reduce(ops, out, Prec("then")) IN <<Append(r[1], "then"), r[2]>>
            ELSE <<ops, out>>

CanFeed(tok) ==
  CASE tok \in {"a", "("}      -> TRUE
    [] tok = ")"               -> expect = "operator" /\ \E i \in 1..Len(ops) : ops[i] = "("
    [] tok \in {"U", "X", "O"} -> expect = "operator"

Feed(tok) ==
  /\ Len(consumed) < MaxTok
  /\ CanFeed(tok)
  /\ consumed' = Append(consumed, tok)
  /\ CASE tok = "a" -> /\ ops' = Implicit[1]
                       /\ out' = Append(Implicit[2], <<Leaf(nops + 1), FALSE>>)
                       /\ expect' = "operator" /\ nops' = nops + 1
       [] tok = "(" -> /\ ops' = Append(Implicit[1], "(")
                       /\ out' = Implicit[2]
                       /\ expect' = "operand" /\ nops' = nops
       [] tok = ")" -> LET r == Reduce(ops, out, 1) IN          \* down to the matching "("
                       /\ ops' = Front(r[1])
                       /\ out' = [r[2] EXCEPT ![Len(r[2])] = <<r[2][Len(r[2])][1], TRUE>>]
                       /\ expect' = "operator" /\ nops' = nops
       [] OTHER     -> LET r == Reduce(ops, out, Prec(OpOf(tok))) IN
                       /\ ops' = Append(r[1], OpOf(tok))
                       /\ out' = r[2]
                       /\ expect' = "operand" /\ nops' = nops

Next == \E tok \in Toks : Feed(tok)
Spec == Init /\ [][Next]_vars

Accepting == expect = "operator" /\ \A i \in 1..Len(ops) : ops[i] # "("
Result == Reduce(ops, out, 1)[2][1][1]              \* meaningful iff Accepting
Enabled == {tok \in Toks : CanFeed(tok)}

(* ------------------------------------------------------------------------------------------- documented reading *)
IsOpTok(t) == t \in {"U", "X", "O"}
RECURSIVE BalancedFrom(_, _, _)
BalancedFrom(ts, i, d) == IF i > Len(ts) THEN d = 0
                          ELSE IF ts[i] = "(" THEN BalancedFrom(ts, i + 1, d + 1)
                          ELSE IF ts[i] = ")" THEN d > 0 /\ BalancedFrom(ts, i + 1, d - 1)
                          ELSE BalancedFrom(ts, i + 1, d)
\* C02: operands, balanced brackets, U/O/X with an operand on both sides, juxtaposition
WellFormed(ts) ==
  /\ ts # <<>>
  /\ BalancedFrom(ts, 1, 0)
  /\ ~IsOpTok(ts[1]) /\ ~IsOpTok(ts[Len(ts)])
  /\ \A i \in 1..(Len(ts) - 1) :
        /\ ~(IsOpTok(ts[i]) /\ IsOpTok(ts[i + 1]))            \* operator needs an operand on both sides
        /\ ~(ts[i] = "(" /\ (IsOpTok(ts[i + 1]) \/ ts[i + 1] = ")"))   \* nothing empty, no operator right after "("
        /\ ~(IsOpTok(ts[i]) /\ ts[i + 1] = ")")

\* positions are pairs <<token, operand number>>
RECURSIVE Number(_, _, _)
Number(ts, i, n) == IF i > Len(ts) THEN <<>>
                    ELSE IF ts[i] = "a" THEN <<<<"a", n + 1>>>> \o Number(ts, i + 1, n + 1)
                    ELSE <<<<ts[i], 0>>>> \o Number(ts, i + 1, n)
RECURSIVE Depths(_, _, _)     \* Depths(ps,i,d): sequence of bracket depths AT each position (depth of "(" = outer depth)
Depths(ps, i, d) == IF i > Len(ps) THEN <<>>
                    ELSE IF ps[i][1] = "(" THEN <<d>> \o Depths(ps, i + 1, d + 1)
                    ELSE IF ps[i][1] = ")" THEN <<d - 1>> \o Depths(ps, i + 1, d - 1)
                    ELSE <<d>> \o Depths(ps, i + 1, d)
\* cut positions of operator o at depth 0 (for "then": boundaries between a complete operand and the start of the next)
Cuts(ps, o) ==
  LET ds == Depths(ps, 1, 0) IN
  IF o = "then"
  THEN {i \in 1..(Len(ps) - 1) : ds[i] = 0 /\ ds[i + 1] = 0 /\ ps[i][1] \in {"a", ")"} /\ ps[i + 1][1] \in {"a", "("}}
  ELSE {i \in 1..Len(ps) : ds[i] = 0 /\ IsOpTok(ps[i][1]) /\ OpOf(ps[i][1]) = o}
Enclosed(ps) == Len(ps) >= 2 /\ ps[1][1] = "(" /\ ps[Len(ps)][1] = ")"
                /\ LET ds == Depths(ps, 1, 0) IN \A i \in 2..(Len(ps) - 1) : ds[i] >= 1
RECURSIVE Pieces(_, _, _, _)  \* split ps at the sorted cut positions; for "then" the cut lies AFTER position c
Pieces(ps, cuts, from, o) ==
  IF cuts = {} THEN <<SubSeq(ps, from, Len(ps))>>
  ELSE LET c == CHOOSE x \in cuts : \A y \in cuts : x <= y IN
       IF o = "then" THEN <<SubSeq(ps, from, c)>> \o Pieces(ps, cuts \ {c}, c + 1, o)
       ELSE <<SubSeq(ps, from, c - 1)>> \o Pieces(ps, cuts \ {c}, c + 1, o)
RECURSIVE SplitP(_)
SplitP(ps) ==
  IF Len(ps) = 1 THEN Leaf(ps[1][2])
  ELSE IF Enclosed(ps) THEN SplitP(SubSeq(ps, 2, Len(ps) - 1))
  ELSE LET o == IF Cuts(ps, "or") # {} THEN "or" ELSE IF Cuts(ps, "xor") # {} THEN "xor"
                ELSE IF Cuts(ps, "and") # {} THEN "and" ELSE "then"
           pcs == Pieces(ps, Cuts(ps, o), 1, o)
       IN <<o, [j \in 1..Len(pcs) |-> SplitP(pcs[j])]>>
Split(ts) == SplitP(Number(ts, 1, 0))

(* ------------------------------------------------------------------------------------------------- invariants *)
\* C02 at token level: the machine accepts exactly the well-formed token sequences
AcceptsExactlyWellFormed == Accepting = WellFormed(consumed)
\* C01: the machine's grouping is the documented reading
MachineAgreesWithSplit == Accepting => Result = Split(consumed)

\* the precedence sentence in structural form: a child that is a same- or lower-ranking composition exists only where
\* the input had brackets; equivalently (on Split's n-ary form) an operand of rank r never has a child node of rank < r
\* unless that child stems from a bracket pair. Checked on the machine's bracket flags:
RECURSIVE Flat(_)
Flat(t) == IF t[1] = "leaf" THEN t[2]
           ELSE LET ch == t[2]
                    F[j \in 0..Len(ch)] == IF j = 0 THEN <<>> ELSE F[j - 1] \o Flat(ch[j])
                IN F[Len(ch)]
\* nothing dropped or reordered: the leaves of the result are the operands 1..n in reading order
YieldIsInput == Accepting => Flat(Result) = [j \in 1..nops |-> j]

RECURSIVE UnbracketedChildrenBindTighter(_, _)
\* spans of bracket pairs as pairs of operand numbers, to tell bracketed children from unbracketed ones
Spans(ts) == LET ps == Number(ts, 1, 0)
                 ds == Depths(ps, 1, 0)
                 Match(i) == CHOOSE j \in (i + 1)..Len(ps) : /\ ps[j][1] = ")" /\ ds[j] = ds[i]
                                                             /\ \A m \in (i + 1)..(j - 1) : ~(ps[m][1] = ")" /\ ds[m] = ds[i])
                 Ops(i, j) == {ps[k][2] : k \in {k2 \in i..j : ps[k2][1] = "a"}}
             IN {Ops(i, Match(i)) : i \in {k \in 1..Len(ps) : ps[k][1] = "("}}
LeafSet(t) == {Flat(t)[j] : j \in 1..Len(Flat(t))}
UnbracketedChildrenBindTighter(t, spans) ==
  IF t[1] = "leaf" THEN TRUE
  ELSE \A j \in 1..Len(t[2]) :
         LET c == t[2][j] IN
         /\ UnbracketedChildrenBindTighter(c, spans)
         /\ (c[1] # "leaf" /\ LeafSet(c) \notin spans) => Prec(c[1]) > Prec(t[1])
PrecedenceStructure == Accepting => UnbracketedChildrenBindTighter(Result, Spans(consumed))

\* redundant brackets do not change the grouping: wrapping the whole expression, or a single operand, in brackets
RedundantBrackets ==
  (Accepting /\ Len(consumed) + 2 <= MaxTok) =>
      /\ Split(<<"(">> \o consumed \o <<")">>) = Result
      /\ \A i \in {k \in 1..Len(consumed) : consumed[k] = "a"} :
            Split(SubSeq(consumed, 1, i - 1) \o <<"(", "a", ")">> \o SubSeq(consumed, i + 1, Len(consumed))) = Result
=============================================================================
