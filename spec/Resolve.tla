------------------------------- MODULE Resolve -------------------------------
(* Resolving packages and time conditions (property C10): the resolved tree equals the tree of the expression in which every
   package [nP] is TEXTUALLY replaced by its bracketed package expression, [UB1] by [932], [UB2] by [934] and [UB3] by
   ([932][492]X[934][493]); exactly one level of packages; an unknown package is an error.

   Operand tokens: "k1","k2","k3" (condition keys), "p1","p2" (packages), "t1","t2","t3" (UB1..UB3), plus the keys the time
   conditions stand for. The machine builds every well-formed expression over these (as CondParser does over "a"); for every
   complete expression the module defines
       SubstTok  - the textual substitution on the token sequence,
       SubstTree - what the resolver does: splice the parsed package / time-condition tree at the leaf,
   and TLC checks the SUBSTITUTION LEMMA  SplitT(SubstTok(ts)) = SubstTree(SplitT(ts))  on every expression in the bound. *)
EXTENDS CondLang
CONSTANTS MaxTok,
          Operands,     \* operand tokens the generator may use
          Table         \* [package operands -> package body (token sequence) | <<>> (unknown to the resolver)]

Pkgs == DOMAIN Table          \* "p1", "p2", and "pz": the number of p1 written with a leading zero - a different key the tables never know
AllToks == Operands \cup {"(", ")", "U", "X", "O"}

VARIABLES ts, expect, depth
vars == <<ts, expect, depth>>
Init == ts = <<>> /\ expect = "operand" /\ depth = 0
CanFeed(t) == IF IsOperand(t) \/ t = "(" THEN TRUE
              ELSE IF t = ")" THEN expect = "operator" /\ depth > 0
              ELSE expect = "operator"
Feed(t) == /\ Len(ts) < MaxTok /\ CanFeed(t)
           /\ ts' = Append(ts, t)
           /\ expect' = IF IsOperand(t) \/ t = ")" THEN "operator" ELSE "operand"
           /\ depth' = IF t = "(" THEN depth + 1 ELSE IF t = ")" THEN depth - 1 ELSE depth
Next == \E t \in AllToks : Feed(t)
Complete == ts # <<>> /\ expect = "operator" /\ depth = 0

(* ------------------------------------------------------------------------------------------- textual substitution *)
UB3 == <<"(", "k932", "k492", "X", "k934", "k493", ")">>
TimeTok(t) == CASE t = "t1" -> <<"k932">> [] t = "t2" -> <<"k934">> [] t = "t3" -> UB3 [] OTHER -> <<t>>
RECURSIVE FlatMap(_, _)        \* concatenation of F(token) over a token sequence
FlatMap(F(_), s) == IF s = <<>> THEN <<>> ELSE F(s[1]) \o FlatMap(F, Tail(s))
PkgTok(t) == IF t \in Pkgs THEN <<"(">> \o Table[t] \o <<")">> ELSE <<t>>
PkgSubst(s) == FlatMap(PkgTok, s)                   \* one level: packages inside a package body stay
TimeSubst(s) == FlatMap(TimeTok, s)
SubstTok(s) == TimeSubst(PkgSubst(s))               \* expand_packages, then expand_time_conditions (also inside package bodies)
UsedPkgs(s) == {s[i] : i \in {j \in 1..Len(s) : s[j] \in Pkgs}}
Resolvable(s) == \A p \in UsedPkgs(s) : Table[p] # <<>>

(* -------------------------------------------------------------------------------------------- substitution on trees *)
\* Split with the operand TOKENS as leaves (instead of their numbers)
OperandsOf(s) == SelectSeq(s, IsOperand)
RECURSIVE Relabel(_, _)
Relabel(t, names) == IF t[1] = "leaf" THEN <<"leaf", <<names[t[2][1]]>>>>
                     ELSE <<t[1], [j \in 1..Len(t[2]) |-> Relabel(t[2][j], names)]>>
SplitT(s) == Relabel(Split(s), OperandsOf(s))
UB3Tree == SplitT(<<"k932", "k492", "X", "k934", "k493">>)
RECURSIVE TimeTree(_)
TimeTree(t) == IF t[1] = "leaf"
               THEN (CASE t[2][1] = "t1" -> <<"leaf", <<"k932">>>> [] t[2][1] = "t2" -> <<"leaf", <<"k934">>>>
                       [] t[2][1] = "t3" -> UB3Tree [] OTHER -> t)
               ELSE <<t[1], [j \in 1..Len(t[2]) |-> TimeTree(t[2][j])]>>
RECURSIVE PkgTree(_)
PkgTree(t) == IF t[1] = "leaf"
              THEN (IF t[2][1] \in Pkgs THEN SplitT(Table[t[2][1]]) ELSE t)       \* the parsed package expression, spliced at the leaf
              ELSE <<t[1], [j \in 1..Len(t[2]) |-> PkgTree(t[2][j])]>>
SubstTree(t) == TimeTree(PkgTree(t))

(* ------------------------------------------------------------------------------------------------------ properties *)
BodiesWellFormed == \A p \in Pkgs : Table[p] = <<>> \/ WellFormed(Table[p])
ASSUME BodiesWellFormed
\* the substitution lemma (C10)
SubstitutionLemma == (Complete /\ Resolvable(ts)) => SplitT(SubstTok(ts)) = SubstTree(SplitT(ts))
\* substituted text is again well-formed, and contains no time condition and only the packages of the bodies
SubstWellFormed == (Complete /\ Resolvable(ts)) => /\ WellFormed(SubstTok(ts))
                                                   /\ \A i \in 1..Len(SubstTok(ts)) : SubstTok(ts)[i] \notin {"t1", "t2", "t3"}
\* each step separately (expand_packages / expand_time_conditions are public as well)
PkgLemma  == (Complete /\ Resolvable(ts)) => SplitT(PkgSubst(ts)) = PkgTree(SplitT(ts))
TimeLemma == Complete => SplitT(TimeSubst(ts)) = TimeTree(SplitT(ts))

VARIABLE obs
ObsOf(s, complete) ==
  [complete |-> complete,
   resolvable |-> complete /\ Resolvable(s),
   subst |-> IF complete /\ Resolvable(s) THEN SubstTok(s) ELSE <<>>,
   tree  |-> IF complete /\ Resolvable(s) THEN SubstTree(SplitT(s)) ELSE <<>>,
   pkgtree |-> IF complete /\ Resolvable(s) THEN PkgTree(SplitT(s)) ELSE <<>>,
   timetree |-> IF complete THEN TimeTree(SplitT(s)) ELSE <<>>]
MCInit == Init /\ obs = ObsOf(<<>>, FALSE)
MCNext == Next /\ obs' = ObsOf(ts', ts' # <<>> /\ expect' = "operator" /\ depth' = 0)
=============================================================================
