CONSTANTS
 MaxLeaves = 4
 FcKeys = {901, 902, 903}
INIT Init
NEXT Next
INVARIANT IsBoolean
INVARIANT MsgIffNotOk
CHECK_DEADLOCK FALSE
