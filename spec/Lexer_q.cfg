CONSTANTS
 MaxChars = 6
INIT MCInit
NEXT MCNext
INVARIANT AcceptsExactlyWellFormed
INVARIANT DepthIsOpenBrackets
CHECK_DEADLOCK FALSE
