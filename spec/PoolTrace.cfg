CONSTANTS
 MaxNodes = 1000
 SegLabels = {}
 FreeLabels = {}
 Pools = {}
 PoolInputs = {}
INIT TInit
NEXT TCheck
CONSTRAINT Accepted
CHECK_DEADLOCK FALSE
