CONSTANTS
 MaxLeaves = 100000
 FcKeys = {901}
INIT TInit
NEXT TNext
CONSTRAINT Accepted
INVARIANT TraceMsgIffNotOk
CHECK_DEADLOCK FALSE
