#!/usr/bin/env python3
"""matrix.py [--checks C04,C05] [--tier quick] <seeded ids or property ids ...>
Runs checks against seeded breaking changes (each applied to a scratch worktree of /repo) and records in
seeded/<id>/meta.json which checks detect it. Default: the check of the mutant's own property."""
import json
import os
import re
import subprocess
import sys
from pathlib import Path

VERIF = Path(__file__).resolve().parent.parent
SEEDED = VERIF / "seeded"


def main():
    args = sys.argv[1:]
    checks = None
    tier = "quick"
    ids = []
    while args:
        a = args.pop(0)
        if a == "--checks":
            checks = args.pop(0).split(",")
        elif a == "--tier":
            tier = args.pop(0)
        else:
            ids.append(a)
    dirs = sorted(d for d in SEEDED.iterdir() if d.is_dir() and (not ids or any(d.name == i or d.name.startswith(i + "-") for i in ids)))
    manifest = json.loads((VERIF / "MANIFEST.json").read_text())
    built = {c["property_id"] for c in manifest["checks"]}
    for d in dirs:
        prop = d.name.split("-")[0]
        meta_p = d / "meta.json"
        meta = json.loads(meta_p.read_text()) if meta_p.exists() else {}
        meta.setdefault("property", prop)
        notes = (d / "notes.md").read_text() if (d / "notes.md").exists() else ""
        meta.setdefault("what_and_needs_to_manifest", "see notes.md (written by the sub-agent that produced the change)")
        conf = (d / "confirm.txt").read_text().strip() if (d / "confirm.txt").exists() else ""
        meta["confirmed_by_me"] = {"command": "selftest/confirm_mutant.sh seeded/" + d.name, "result": conf}
        runs = meta.setdefault("checks_run", {})
        for c in (checks or [prop]):
            if c not in built:
                continue
            p = subprocess.run([str(VERIF / "selftest" / "run_on_mutant.sh"), str(d / "patch.diff"), c, tier],
                               capture_output=True, text=True)
            out = p.stdout + p.stderr
            vio = [l for l in out.splitlines() if l.startswith("VIOLATION")]
            first = ""
            lines = out.splitlines()
            for i, l in enumerate(lines):
                if l.startswith("VIOLATION") and i + 1 < len(lines):
                    first = lines[i + 1].strip()[:300]
                    break
            runs[f"{c}:{tier}"] = {"exit": p.returncode, "violation_lines": len(vio), "first": first}
            print(d.name, c, tier, "exit", p.returncode, first[:150], flush=True)
        meta["detected_by"] = sorted(k for k, v in runs.items() if v["exit"] == 1 and v["violation_lines"] > 0)
        meta_p.write_text(json.dumps(meta, indent=1, ensure_ascii=False) + "\n")


if __name__ == "__main__":
    main()
