#!/bin/sh
# imports finished "correct optimisation" changes from /tmp/ref4/Cxx/_out/{A,B} as harmless/Cxx-{F,G} after confirming that each applies to
# /repo's HEAD and keeps the repository's 532 tests green (scratch worktree, removed afterwards)
for p in "$@"; do
  for pair in A:F B:G; do
    src=/tmp/ref4/$p/_out/${pair%%:*}; dst=/verif/harmless/$p-${pair##*:}
    [ -f "$src/patch.diff" ] || continue
    [ -d "$dst" ] && continue
    WT=/tmp/hconfirm-$$
    git -C /repo worktree add -q --detach "$WT" HEAD || exit 2
    if (cd "$WT" && git apply "$src/patch.diff" && PYTHONPATH="$WT/src" PYTHONDONTWRITEBYTECODE=1 /venv/bin/python -m pytest -q -p no:cacheprovider --timeout=900 2>&1 | tail -1 | grep -q "532 passed"); then
      mkdir -p "$dst"; cp "$src/patch.diff" "$src/notes.md" "$dst/"; echo "imported $dst"
    else
      echo "NOT CONFIRMED $src"
    fi
    git -C /repo worktree remove --force "$WT" >/dev/null 2>&1
  done
done
