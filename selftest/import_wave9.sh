#!/bin/sh
# imports finished ninth-wave changes from /tmp/mut9/Cxx/_out/{A,B} as seeded/Cxx-{R,S} after confirming them
for p in "$@"; do
  for pair in A:R B:S; do
    src=/tmp/mut9/$p/_out/${pair%%:*}; dst=/verif/seeded/$p-${pair##*:}
    [ -f "$src/patch.diff" ] || continue
    [ -d "$dst" ] && continue
    if /verif/selftest/confirm_mutant.sh "$src" > /tmp/confirm-$p-${pair##*:}.txt 2>&1; then
      mkdir -p "$dst"; cp "$src/patch.diff" "$src/demo.py" "$src/notes.md" "$dst/"; cp /tmp/confirm-$p-${pair##*:}.txt "$dst/confirm.txt"; echo "imported $dst"
    else
      echo "NOT CONFIRMED $src: $(tail -1 /tmp/confirm-$p-${pair##*:}.txt)"
    fi
    rm -f /tmp/confirm-$p-${pair##*:}.txt
  done
done
