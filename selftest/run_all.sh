#!/bin/sh
# run_all.sh <tier>  -- runs every registered check once with the given tier and prints one line per check
cd "$(dirname "$0")/.."
TIER="${1:-quick}"
for id in $(python3 -c "import json; print(' '.join(c['property_id'] for c in json.load(open('MANIFEST.json'))['checks']))"); do
  s=$(date +%s)
  out=$(./check "$id" --tier "$TIER" 2>&1); rc=$?
  e=$(date +%s)
  echo "$id tier=$TIER rc=$rc wall=$((e-s))s $(echo "$out" | grep -E '^(OK|VIOLATION|KNOWN-FINDING|MACHINERY)' | head -2 | tr '\n' ' ')"
done
