#!/bin/sh
# run_some.sh <tier> <id>... -- like run_all.sh for the given checks only
cd "$(dirname "$0")/.."
TIER="$1"; shift
for id in "$@"; do
  s=$(date +%s)
  out=$(./check "$id" --tier "$TIER" 2>&1); rc=$?
  e=$(date +%s)
  echo "$id tier=$TIER rc=$rc wall=$((e-s))s $(echo "$out" | grep -E '^(OK|VIOLATION|KNOWN-FINDING|MACHINERY)' | head -2 | tr '\n' ' ')"
done
