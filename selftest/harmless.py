#!/usr/bin/env python3
"""harmless.py [ids...] : runs checks against property-PRESERVING changes (harmless/<Cxx-X>/patch.diff, written by sub-agents that were asked to keep
the property true). Every check must stay green; an exit code 1 is a FALSE ALARM of the machinery and has to be corrected."""
import json
import subprocess
import sys
from pathlib import Path

V = Path(__file__).resolve().parent.parent
H = V / "harmless"
RELATED = {"C01": ["C01", "C02", "C05"], "C02": ["C02", "C09", "C01"], "C04": ["C04", "C05", "C06", "C07", "C12"], "C07": ["C07", "C04", "C09"],
           "C08": ["C08", "C12", "C09"], "C09": ["C09", "C02", "C06", "C12"], "C10": ["C10", "C12", "C02"], "C11": ["C11", "C01"],
           "C12": ["C12", "C15", "C09", "C04"], "C13": ["C13", "C14", "C16", "C17", "C15"], "C15": ["C15", "C13", "C12"], "C19": ["C19"],
           "C03": ["C03", "C04", "C05", "C06"], "C05": ["C05", "C04", "C06", "C07"], "C06": ["C06", "C04", "C05", "C09"], "C14": ["C14", "C13", "C16"],
           "C16": ["C16", "C13", "C14"], "C17": ["C17", "C13", "C16"], "C18": ["C18", "C06", "C19"], "C20": ["C20", "C10", "C08"]}
ids = sys.argv[1:]
for d in sorted(x for x in H.iterdir() if x.is_dir() and (not ids or x.name in ids or x.name.split("-")[0] in ids)):
    prop = d.name.split("-")[0]
    meta_p = d / "meta.json"
    meta = json.loads(meta_p.read_text()) if meta_p.exists() else {"property_kept": prop, "checks_run": {}}
    for c in RELATED.get(prop, [prop]):
        if c in meta["checks_run"] and "--force" not in sys.argv:
            continue
        p = subprocess.run([str(V / "selftest" / "run_on_mutant.sh"), str(d / "patch.diff"), c, "quick"], capture_output=True, text=True)
        out = p.stdout + p.stderr
        lines = out.splitlines()
        first = ""
        for i, l in enumerate(lines):
            if l.startswith("VIOLATION") and i + 1 < len(lines):
                first = lines[i + 1].strip()[:400]
                break
        if p.returncode == 2:
            first = next((l for l in lines if l.startswith("MACHINERY")), "")[:300]
        meta["checks_run"][c] = {"exit": p.returncode, "first": first}
        print(d.name, c, "exit", p.returncode, first[:200], flush=True)
        meta_p.write_text(json.dumps(meta, indent=1, ensure_ascii=False) + "\n")
    meta["false_alarms"] = sorted(c for c, r in meta["checks_run"].items() if r["exit"] == 1)
    meta_p.write_text(json.dumps(meta, indent=1, ensure_ascii=False) + "\n")
