#!/usr/bin/env python3
"""Rewrites the table between the MATRIX markers of DESIGN.md from seeded/*/meta.json."""
import json
import re
from pathlib import Path

V = Path(__file__).resolve().parent.parent
rows = ["| change | breaks | needs to manifest (from the author's notes) | detected by (quick tier) | first report |", "|---|---|---|---|---|"]
missed = []
for d in sorted((V / "seeded").iterdir()):
    m = d / "meta.json"
    if not m.exists():
        continue
    meta = json.loads(m.read_text())
    notes = (d / "notes.md").read_text() if (d / "notes.md").exists() else ""
    title = next((l.lstrip("# ").strip() for l in notes.splitlines() if l.strip()), "")[:90]
    det = ", ".join(k.split(":")[0] for k in meta.get("detected_by", []))
    first = ""
    for k in meta.get("detected_by", []):
        first = meta["checks_run"][k]["first"][:110].replace("|", "/")
        break
    if not det:
        missed.append(d.name)
        det = "**none of: " + ", ".join(k.split(":")[0] for k in meta.get("checks_run", {})) + "**"
    rows.append(f"| {d.name} | {meta['property']} | {title.replace('|', '/')} | {det} | {first} |")
text = "\n".join(rows) + f"\n\nDetected: {len(rows) - 2 - len(missed)} of {len(rows) - 2}" + (f"; not detected: {', '.join(missed)}" if missed else "") + "\n"
p = V / "DESIGN.md"
s = p.read_text()
s = re.sub(r"<!-- MATRIX-BEGIN -->.*<!-- MATRIX-END -->", "<!-- MATRIX-BEGIN -->\n" + text.replace("\\", "\\\\") + "<!-- MATRIX-END -->", s, flags=re.S)
p.write_text(s)
print(text[-300:])

# ---- harmless changes
rows = ["| change | keeps | what it changes (from the author's notes) | checks run (all must stay green) | alarms |", "|---|---|---|---|---|"]
H = V / "harmless"
n = alarms = 0
for d in sorted(H.iterdir()) if H.exists() else []:
    m = d / "meta.json"
    if not m.exists():
        continue
    meta = json.loads(m.read_text())
    notes = (d / "notes.md").read_text() if (d / "notes.md").exists() else ""
    title = next((l.lstrip("# ").strip() for l in notes.splitlines() if l.strip()), "")[:100].replace("|", "/")
    runs = meta.get("checks_run", {})
    bad = [f"{c} (exit {r['exit']}): {r['first'][:90]}" for c, r in runs.items() if r["exit"] != 0]
    n += 1
    alarms += bool(bad)
    rows.append(f"| {d.name} | {meta.get('property_kept')} | {title} | {', '.join(runs)} | {'; '.join(bad).replace('|', '/') if bad else '-'} |")
text = "\n".join(rows) + f"\n\nChanges: {n}; with an alarm: {alarms}\n"
s2 = p.read_text()
s2 = re.sub(r"<!-- HARMLESS-BEGIN -->.*<!-- HARMLESS-END -->", "<!-- HARMLESS-BEGIN -->\n" + text.replace("\\", "\\\\") + "<!-- HARMLESS-END -->", s2, flags=re.S)
p.write_text(s2)
print(text[-200:])
