#!/usr/bin/env python3
"""Rewrites the table between the MATRIX markers of DESIGN.md from seeded/*/meta.json."""
import json
import re
from pathlib import Path

V = Path(__file__).resolve().parent.parent
rows = ["| change | breaks | needs to manifest (from the author's notes) | detected by (quick tier) | first report |", "|---|---|---|---|---|"]
missed = []
for d in sorted((V / "seeded").iterdir()):
    m = d / "meta.json"
    if not m.exists():
        continue
    meta = json.loads(m.read_text())
    notes = (d / "notes.md").read_text() if (d / "notes.md").exists() else ""
    title = next((l.lstrip("# ").strip() for l in notes.splitlines() if l.strip()), "")[:90]
    det = ", ".join(k.split(":")[0] for k in meta.get("detected_by", []))
    first = ""
    for k in meta.get("detected_by", []):
        first = meta["checks_run"][k]["first"][:110].replace("|", "/")
        break
    if not det:
        missed.append(d.name)
        det = "**none of: " + ", ".join(k.split(":")[0] for k in meta.get("checks_run", {})) + "**"
    rows.append(f"| {d.name} | {meta['property']} | {title.replace('|', '/')} | {det} | {first} |")
text = "\n".join(rows) + f"\n\nDetected: {len(rows) - 2 - len(missed)} of {len(rows) - 2}" + (f"; not detected: {', '.join(missed)}" if missed else "") + "\n"
p = V / "DESIGN.md"
s = p.read_text()
s = re.sub(r"<!-- MATRIX-BEGIN -->.*<!-- MATRIX-END -->", "<!-- MATRIX-BEGIN -->\n" + text.replace("\\", "\\\\") + "<!-- MATRIX-END -->", s, flags=re.S)
p.write_text(s)
print(text[-300:])
