#!/usr/bin/env python3
"""Binding demonstration (DESIGN section 11, gate 3): for every trace specification, a batch of traces recorded from the REAL code is
accepted, and the same batch with one corrupted field / one dropped event / two swapped events is rejected at exactly that trace.
Usage: PYTHONPATH=/repo/src:/verif/harness /venv/bin/python selftest/binding_demo.py"""
import copy
import json
import random
import sys

sys.path.insert(0, "/verif/harness")
import ahb  # noqa: E402

ahb.configure()
from common import Work, validate_traces  # noqa: E402

work = Work("binding")
ok = True


def demo(name, module, cfg, traces, corruptions):
    global ok
    slim = [{k: v for k, v in t.items() if k not in ("expr", "exprs", "string", "b")} for t in traces]
    _, acc, _ = validate_traces(module, cfg, slim, work, tag=name)
    base = all(t["id"] in acc for t in slim)
    print(f"{name}: {len(slim)} recorded traces, all accepted: {base}")
    ok &= base
    for cname, fn in corruptions:
        bad = copy.deepcopy(slim)
        victim = fn(bad)
        _, acc2, diag = validate_traces(module, cfg, bad, work, tag=name + "-c")
        rejected = [t["id"] for t in bad if t["id"] not in acc2]
        good = rejected == [victim]
        print(f"   {cname}: rejected traces {rejected} (corrupted: {victim}) {'OK' if good else 'UNEXPECTED'}; first refused event: {diag.get(victim, ('?',))[0]}")
        ok &= good


# --- EvalTrace
import evalcheck as E  # noqa: E402
rng = random.Random(5)
cases = [(E.render(E.random_tree(rng, rng.randint(4, 12), [1, 2, 3], [501], [901, 902]), rng), {1: "F", 2: "U", 3: "K"}) for _ in range(40)]
tr = [t for t in E.record_runs(cases) if t["events"] and E.in_generator_domain(t["events"]) and len(t["events"]) >= 5 and "err" not in t["events"][-1]]


def flip_state(b):
    t = b[3]
    ev = next(e for e in t["events"] if "res" in e and e["op"] != "leaf")
    ev["res"]["st"] = {"F": "U", "U": "F", "K": "F", "N": "F"}[ev["res"]["st"]]
    return t["id"]


def drop_event(b):
    t = b[5]
    del t["events"][1]
    return t["id"]


def swap_events(b):
    t = b[7]
    i = next(i for i, e in enumerate(t["events"]) if e["op"] != "leaf")
    t["events"][i - 1], t["events"][i] = t["events"][i], t["events"][i - 1]
    return t["id"]


demo("EvalTrace", "EvalTrace", "EvalTrace.cfg", tr, [("one result state flipped", flip_state), ("one event dropped", drop_event), ("two events swapped", swap_events)])

# --- EvalResultTrace (second level: results only)
rtr = []
for tid, (expr, asg) in enumerate(cases[:15], start=1):
    import asyncio  # noqa: E402
    got = asyncio.run(E.eval_real(expr, asg))
    tree = E.eval_tree_of(expr)
    final = {"err": got["err"] or "nil", "st": "-", "fcx": []}
    if got["err"] is None:
        final["st"] = E._OUTCOME_INV[got["outcome"]]
        final["fcx"] = E._to_list(E.real_fc_ast(got["fc_expr"])) if got["fc_expr"] else []
    rtr.append({"id": tid, "asg": [[k, v] for k, v in sorted(asg.items())], "tree": tree, "final": final})


def flip_final(b):
    t = next(t for t in b if t["final"]["err"] == "nil")
    t["final"]["st"] = {"F": "U", "U": "F", "K": "F", "N": "F"}[t["final"]["st"]]
    return t["id"]


def claim_error(b):
    t = [t for t in b if t["final"]["err"] == "nil"][1]
    t["final"] = {"err": "invalid", "st": "-", "fcx": []}
    return t["id"]


demo("EvalResultTrace", "EvalResultTrace", "EvalResultTrace.cfg", rtr, [("final state flipped", flip_final), ("an error claimed for a valid expression", claim_error)])

# --- CondParserTrace
import c01  # noqa: E402
import condparse as CP  # noqa: E402
ptr = []
for tid in range(1, 31):
    toks = CP.random_tokens(rng, rng.randint(3, 10))
    expr, _ = CP.render_tokens(toks, rng)
    tree, _ = c01.real_canon(expr, toks)
    ptr.append({"id": tid, "toks": toks, "tree": CP.tree_to_json(tree)})


def regroup(b):
    t = next(t for t in b if t["tree"][0] != "leaf" and len(t["tree"][1]) >= 2)
    t["tree"][1][0], t["tree"][1][1] = t["tree"][1][1], t["tree"][1][0]
    return t["id"]


def drop_token(b):
    t = b[4]
    t["toks"] = t["toks"][:-1]
    return t["id"]


demo("CondParserTrace", "CondParserTrace", "CondParserTrace.cfg", ptr, [("two operands of the logged tree swapped", regroup), ("last token dropped", drop_token)])

# --- ValidationTrace
import asyncio  # noqa: E402
import valcheck as V  # noqa: E402
vtr = []
labels = ["MUSS.T", "KANN.T", "SOLL.T", "MUSS.F", "INV.T"]
for tid in range(1, 21):
    nodes = V.random_nodes(rng, rng.randint(5, 12), labels, [("T", "F"), ("F", "F")])
    deep, exprs, _ = V.build_ahb(nodes, random.Random(tid))
    real = asyncio.run(V.real_validate(deep, True))
    if real[0] != "ok":
        continue
    result = [{"id": e["id"], "status": ("REQUIRED" if nodes[e["id"] - 1]["kind"] == "p" and e["status"] != "FORBIDDEN" else e["status"]), "fill": e["fill"],
               "flagged": bool(e.get("flagged", False)), "offered": list(e.get("offered", []))} for e in real[1]]
    vtr.append({"id": tid, "nodes": [dict(n, pool=list(n["pool"])) for n in nodes], "soll": True, "result": result})


def flip_status(b):
    t = b[2]
    e = t["result"][-1]
    e["status"] = "OPTIONAL" if e["status"] != "OPTIONAL" else "REQUIRED"
    return t["id"]


def drop_entry(b):
    t = b[4]
    del t["result"][0]
    return t["id"]


demo("ValidationTrace", "ValidationTrace", "ValidationTrace.cfg", vtr, [("one logged status changed", flip_status), ("one result entry dropped", drop_entry)])
work.cleanup()
print("BINDING DEMONSTRATION", "PASSED" if ok else "FAILED")
sys.exit(0 if ok else 1)
