#!/bin/sh
# reverts.sh -- every "fix:" commit of /repo reverted on top of HEAD (selftest/reverts/*.diff; the revert of 2d48a24 is expressed on top of the later 93d5eb4):
# the check of the property must report the violation again (exit 1). Prints one line per revert; exits 1 if a revert goes unnoticed.
cd "$(dirname "$0")/.."
bad=0
for m in "5273cdf C02" "50472a7 C09" "8ef8442 C14" "f4f3399 C17" "445614d C19" "2752ccd C20" "f87c2f5 C20" "02ab233 C07" "7ae9812 C09" "df3bced C02" "93d5eb4 C02" "93d5eb4 C01" "2d48a24-on-HEAD C11"; do
  set -- $m
  out=$(./selftest/run_on_mutant.sh selftest/reverts/revert-$1.diff $2 quick 2>&1); rc=$?
  echo "revert of $1 / check $2: exit $rc $(echo "$out" | grep -A1 '^VIOLATION' | sed -n 2p | cut -c1-140)"
  [ $rc -eq 1 ] || bad=1
done
exit $bad
