#!/usr/bin/env python3
"""Non-vacuity (DESIGN section 11, gate 4): runs TLC with -coverage on every verdict configuration and reports, per action, how often it was
taken; an action never taken means the properties were never exercised on it."""
import re
import subprocess
import sys
from pathlib import Path

V = Path(__file__).resolve().parent.parent
sys.path.insert(0, str(V / "harness"))
from common import TLC_CP  # noqa: E402

RUNS = [("Logic4MC", "Logic4MC.cfg"), ("Eval", "Eval_q.cfg"), ("FcEval", "FcEval_q.cfg"), ("CondParser", "CondParser_q.cfg"), ("Lexer", "Lexer_q.cfg"),
        ("AhbSplit", "AhbSplit_q.cfg"), ("AhbEval", "AhbEval_q.cfg"), ("MC_Validation", "Validation_q.cfg"), ("Provider", "Provider.cfg")]
work = V / ".work" / "coverage"
work.mkdir(parents=True, exist_ok=True)
bad = 0
for mod, cfg in RUNS:
    p = subprocess.run(["java", "-Xmx8g", "-cp", TLC_CP, "tlc2.TLC", "-workers", "8", "-metadir", str(work / mod), "-noGenerateSpecTE", "-coverage", "1",
                        "-config", str(V / "spec" / cfg), str(V / "spec" / (mod + ".tla"))], cwd=str(V / "spec"), capture_output=True, text=True)
    out = p.stdout
    acts = {}
    for m in re.finditer(r"<(\w+) line \d+, col \d+ to line \d+, col \d+ of module (\w+)>: (\d+):(\d+)", out):
        acts[m.group(1)] = (int(m.group(3)), int(m.group(4)))
    zero = [a for a, (d, t) in acts.items() if t == 0 and a not in ("Init", "MCInit")]
    print(f"{mod}: " + ", ".join(f"{a}={t}" for a, (d, t) in sorted(acts.items())) + (f"   NEVER TAKEN: {zero}" if zero else ""))
    bad += len(zero)
import shutil
shutil.rmtree(work, ignore_errors=True)
print("NON-VACUITY", "OK" if not bad else f"{bad} actions never taken")
sys.exit(1 if bad else 0)
