#!/usr/bin/env python3
"""harmless_own.py <property ids...> : re-runs ONLY the property's own check against every property-preserving change written for that property
(harmless/<Cxx-*>) and overwrites that entry of meta.json - used after a check was strengthened."""
import json
import subprocess
import sys
from pathlib import Path

V = Path(__file__).resolve().parent.parent
for prop in sys.argv[1:]:
    for d in sorted((V / "harmless").glob(prop + "-*")):
        meta_p = d / "meta.json"
        meta = json.loads(meta_p.read_text()) if meta_p.exists() else {"property_kept": prop, "checks_run": {}}
        p = subprocess.run([str(V / "selftest" / "run_on_mutant.sh"), str(d / "patch.diff"), prop, "quick"], capture_output=True, text=True)
        lines = (p.stdout + p.stderr).splitlines()
        first = ""
        for i, l in enumerate(lines):
            if l.startswith("VIOLATION") and i + 1 < len(lines):
                first = lines[i + 1].strip()[:400]
                break
        if p.returncode == 2:
            first = next((l for l in lines if l.startswith("MACHINERY")), "")[:300]
        meta["checks_run"][prop] = {"exit": p.returncode, "first": first}
        meta["false_alarms"] = sorted(c for c, r in meta["checks_run"].items() if r["exit"] == 1)
        meta_p.write_text(json.dumps(meta, indent=1, ensure_ascii=False) + "\n")
        print(d.name, prop, "exit", p.returncode, first[:200], flush=True)
