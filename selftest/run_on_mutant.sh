#!/bin/sh
# run_on_mutant.sh <patch.diff> <check id> [tier]   -- runs ./check <id> against a scratch worktree of /repo with the patch applied
P="$(cd "$(dirname "$1")" && pwd)/$(basename "$1")"; ID="$2"; TIER="${3:-quick}"
WT=/tmp/mutrun-$$
git -C /repo worktree add -q --detach "$WT" HEAD || exit 2
trap 'git -C /repo worktree remove --force "$WT" >/dev/null 2>&1' EXIT
if ! git -C "$WT" apply "$P" 2>/dev/null; then
  # the change was written against an earlier HEAD of /repo (before a later fix: commit touched the same lines): test it on that base
  git -C /repo worktree remove --force "$WT" >/dev/null 2>&1
  git -C /repo worktree add -q --detach "$WT" "${MUTANT_BASE:-df3bced}" || exit 2
  git -C "$WT" apply "$P" || { echo "patch applies neither to HEAD nor to ${MUTANT_BASE:-df3bced}"; exit 2; }
  echo "(patch applied to ${MUTANT_BASE:-df3bced})"
fi
cd /verif && AHBICHT_REPO="$WT" VERIF_NO_EVIDENCE=1 ./check "$ID" --tier "$TIER"
