#!/bin/sh
# run_on_mutant.sh <patch.diff> <check id> [tier]   -- runs ./check <id> against a scratch worktree of /repo with the patch applied
P="$(cd "$(dirname "$1")" && pwd)/$(basename "$1")"; ID="$2"; TIER="${3:-quick}"
WT=/tmp/mutrun-$$
git -C /repo worktree add -q --detach "$WT" HEAD || exit 2
trap 'git -C /repo worktree remove --force "$WT" >/dev/null 2>&1' EXIT
git -C "$WT" apply "$P" || exit 2
cd /verif && AHBICHT_REPO="$WT" VERIF_NO_EVIDENCE=1 ./check "$ID" --tier "$TIER"
