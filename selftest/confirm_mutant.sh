#!/bin/sh
# confirm_mutant.sh <dir with patch.diff and demo.py>
# Confirms in a scratch worktree (outside /repo and /verif) that the change (a) applies to /repo's HEAD, (b) keeps the
# repository's own 532 tests green, (c) makes the demonstration fail, while (d) the demonstration passes without it.
D="$(cd "$1" && pwd)"
WT=/tmp/confirm-$$
git -C /repo worktree add -q --detach "$WT" HEAD || exit 2
trap 'git -C /repo worktree remove --force "$WT" >/dev/null 2>&1' EXIT
cd "$WT"
export PYTHONPATH="$WT/src" PYTHONDONTWRITEBYTECODE=1
/venv/bin/python "$D/demo.py" >/dev/null 2>&1; clean=$?
git apply "$D/patch.diff" || { echo "RESULT patch does not apply"; exit 1; }
suite=$(/venv/bin/python -m pytest -q -p no:cacheprovider --timeout=900 2>&1 | tail -1)
/venv/bin/python "$D/demo.py" >/dev/null 2>&1; mutated=$?
echo "RESULT demo_clean_rc=$clean suite='$suite' demo_mutated_rc=$mutated"
case "$suite" in *"532 passed"*) ;; *) exit 1;; esac
[ $clean -eq 0 ] && [ $mutated -ne 0 ]
