"""pytest plugin (loaded with `-p verif_pytest_plugin`, PYTHONPATH=/verif/harness) that records every callback of the real
RequirementConstraintTransformer / FormatConstraintTransformer while the REPOSITORY'S OWN test suite runs. One transform() call = one trace.
The traces are validated by TLC against EvalTrace.tla / FcEvalTrace.tla (trace validation of the existing functional tests: their
assertions may be weak, the specification checks every intermediate step)."""
import json
import os

_OUT = os.environ.get("VERIF_TRACE_OUT")


def pytest_configure(config):
    if not _OUT:
        return
    try:
        _install()
    except Exception:  # noqa: BLE001 - the transformers are not classes that can be subclassed and rebound (any more): nothing is recorded, nothing is claimed
        pass


def _install():
    import ahbicht.content_evaluation  # noqa: F401
    import evalcheck as E
    import ahbicht.expressions.requirement_constraint_expression_evaluation as rmod
    import ahbicht.expressions.format_constraint_expression_evaluation as fmod
    from lark import v_args
    rc_sink = []
    E.install_tracer(rc_sink)
    Tr = rmod.RequirementConstraintTransformer
    state = {"n": 0, "depth": 0}
    out = open(_OUT, "a")

    class Outer(Tr):
        def transform(self, tree):
            state["depth"] += 1
            if state["depth"] == 1:
                del rc_sink[:]
            try:
                return super().transform(tree)
            finally:
                state["depth"] -= 1
                if state["depth"] == 0 and rc_sink:
                    state["n"] += 1
                    out.write(json.dumps({"kind": "rc", "id": state["n"], "events": list(rc_sink)}) + "\n")
                    out.flush()

    rmod.RequirementConstraintTransformer = Outer

    base = fmod.FormatConstraintTransformer
    fc_sink = []
    J = lambda n: {"ok": bool(n.format_constraint_fulfilled), "has_msg": n.error_message is not None}

    @v_args(inline=True)
    class FcTracing(base):
        def transform(self, tree):
            del fc_sink[:]
            try:
                return super().transform(tree)
            finally:
                if fc_sink:
                    state["n"] += 1
                    out.write(json.dumps({"kind": "fc", "id": state["n"], "events": list(fc_sink)}) + "\n")
                    out.flush()

        def condition(self, token):
            r = super().condition(token)
            fc_sink.append({"op": "leaf", "key": int(token.value), "res": J(r)})
            return r

        def and_composition(self, *args):
            r = super().and_composition(*args)
            fc_sink.append({"op": "and", "l": J(args[0]), "r": J(args[1]), "res": J(r)} if len(args) == 2 else {"op": "skip"})
            return r

        def or_composition(self, *args):
            r = super().or_composition(*args)
            fc_sink.append({"op": "or", "l": J(args[0]), "r": J(args[1]), "res": J(r)} if len(args) == 2 else {"op": "skip"})
            return r

        def xor_composition(self, *args):
            r = super().xor_composition(*args)
            fc_sink.append({"op": "xor", "l": J(args[0]), "r": J(args[1]), "res": J(r)} if len(args) == 2 else {"op": "skip"})
            return r

    fmod.FormatConstraintTransformer = FcTracing
