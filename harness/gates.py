"""Deterministic gate driver for asyncio schedules (C12, C15). The evaluators / hints provider / package resolver handed to ahbicht
are async functions that record what they can observe at their START and then wait on a gate; the driver lets the event loop run
until nothing but gated futures is pending, compares the pending labels with the specification's Pending set, completes the
awaitable the TLC behaviour chose, and repeats. No timing, no threads: a run is reproducible from its schedule alone."""
import asyncio
import hashlib


class Gates:
    def __init__(self):
        self.reset()

    def reset(self, auto=False, tag_text=False, tag_data=False):
        self.pending = {}
        self.counts = {}
        self.auto = auto              # True: nothing ever yields (reference run)
        self.tag_text = tag_text      # FC labels carry the text the evaluator was handed
        self.tag_data = tag_data      # RC/FC/hint labels carry the id of the EvaluatableData the evaluator saw
        self.started = []

    async def gate(self, base):
        n = self.counts[base] = self.counts.get(base, 0) + 1
        label = f"{base}#{n}"
        self.started.append(label)
        if self.auto:
            return
        fut = asyncio.get_running_loop().create_future()
        self.pending[label] = fut
        await fut

    def release(self, label):
        self.pending.pop(label).set_result(None)


G = Gates()


def data_id(body):
    """short id of a dumped ContentEvaluationResult (what an evaluator sees as evaluatable_data.body)"""
    if not isinstance(body, dict):
        return "none"
    short = {"FULFILLED": "F", "UNFULFILLED": "U", "UNKNOWN": "K", "NEUTRAL": "N"}
    rc = ",".join(f"{k}={short.get(str(v), str(v))}" for k, v in sorted(body.get("requirement_constraints", {}).items()))
    fc = ",".join(f"{k}={'T' if v.get('format_constraint_fulfilled') else 'F'}" for k, v in sorted(body.get("format_constraints", {}).items()))
    return f"{rc}|{fc}"


def cer_id(cer):
    from ahbicht.models.content_evaluation_result import ContentEvaluationResultSchema
    return data_id(ContentEvaluationResultSchema().dump(cer))


def make_evaluators(rc_values=None, fc_rule=None, packages=None, from_data=False):
    """-> [rc evaluator, fc evaluator, hints provider, package resolver], all gated.
    rc_values: key -> 'F'/'U'/'K'; fc_rule(key, text) -> bool; packages: 'nP' -> expression or None;
    from_data=True: RC and FC values are taken from the ContentEvaluationResult in the evaluatable data (is_valid_expression)"""
    import ahb
    from ahbicht.content_evaluation.evaluationdatatypes import EvaluationContext
    from ahbicht.content_evaluation.fc_evaluators import FcEvaluator
    from ahbicht.content_evaluation.rc_evaluators import RcEvaluator
    from ahbicht.expressions.hints_provider import HintsProvider
    from ahbicht.expressions.package_expansion import PackageResolver
    from ahbicht.models.condition_nodes import EvaluatedFormatConstraint
    from ahbicht.models.mapping_results import PackageKeyConditionExpressionMapping
    from efoli import EdifactFormat
    rc_values = rc_values or {}
    packages = packages or {}
    fc_rule = fc_rule or (lambda k, text: True)
    ns_rc = {"_get_default_context": lambda self: EvaluationContext(scope=None)}
    for k in list(range(1, 41)) + [492, 493]:
        async def m(self, evaluatable_data, context, _k=k):
            tag = f"@{data_id(evaluatable_data.body)}" if G.tag_data else ""
            await G.gate(f"rc:{_k}{tag}")
            if from_data:
                return ahb.CFV(evaluatable_data.body["requirement_constraints"][str(_k)])
            return ahb.ST[rc_values.get(_k, "U")]
        ns_rc[f"evaluate_{k}"] = m
    ns_fc = {}
    for k in range(901, 931):
        async def f(self, entered_input, _k=k):
            import inject
            tag = ""
            if G.tag_text:
                tag = f"@{entered_input}"
            if G.tag_data:
                from ahbicht.content_evaluation.evaluationdatatypes import EvaluatableDataProvider
                body = inject.instance(EvaluatableDataProvider).body
                tag = f"@{data_id(body)}"
            await G.gate(f"fc:{_k}{tag}")
            if from_data:
                from ahbicht.content_evaluation.evaluationdatatypes import EvaluatableDataProvider
                v = inject.instance(EvaluatableDataProvider).body["format_constraints"][str(_k)]["format_constraint_fulfilled"]
                return EvaluatedFormatConstraint(bool(v), None if v else f"E{_k}")
            ok = bool(fc_rule(_k, entered_input))
            return EvaluatedFormatConstraint(ok, None if ok else f"E{_k} for {entered_input!r}")
        ns_fc[f"evaluate_{k}"] = f

    class GatedHints(HintsProvider):
        async def get_hint_text(self, condition_key):
            tag = ""
            body = None
            if G.tag_data:
                import inject
                from ahbicht.content_evaluation.evaluationdatatypes import EvaluatableDataProvider
                body = inject.instance(EvaluatableDataProvider).body
                tag = f"@{data_id(body)}"
            await G.gate(f"hint:{condition_key}{tag}")
            if from_data and isinstance(body, dict) and (body.get("hints") or {}).get(str(condition_key)):
                return body["hints"][str(condition_key)]         # the hint text belongs to the data of THIS evaluation
            return f"H{condition_key}"

    class GatedPackages(PackageResolver):
        async def get_condition_expression(self, package_key):
            await G.gate(f"pkg:{package_key}")
            return PackageKeyConditionExpressionMapping(package_key=package_key, package_expression=packages.get(package_key),
                                                        edifact_format=EdifactFormat.UTILMD)

    return [type("GatedRc", (RcEvaluator,), ns_rc)(), type("GatedFc", (FcEvaluator,), ns_fc)(), GatedHints(), GatedPackages()]


async def quiesce(limit=100000):
    """lets the loop run until only the driver itself is runnable"""
    loop = asyncio.get_running_loop()
    calm = 0
    for _ in range(limit):
        await asyncio.sleep(0)
        if len(loop._ready) == 0:  # pylint:disable=protected-access
            calm += 1
            if calm >= 2:
                return
        else:
            calm = 0
    raise RuntimeError("event loop does not become quiescent")


def _base(label):
    return label.rsplit("#", 1)[0]


class ConformanceFailure(Exception):
    def __init__(self, step, real, expected, schedule):
        super().__init__(f"step {step}: pending awaitables {sorted(real)} but the specification allows exactly {sorted(expected)}")
        self.step, self.real, self.expected, self.schedule = step, real, expected, schedule


async def drive(coro_factory, schedule, expected_pending):
    """runs coro_factory() along the schedule. -> ('ok', result) | ('raised', exception). Raises ConformanceFailure if the real
    pending set differs from the specification's at any step."""
    task = asyncio.ensure_future(coro_factory())
    try:
        for step, label in enumerate(schedule):
            await quiesce()
            real = {l for l, f in G.pending.items() if not f.done()}     # a gate cancelled by the code is no longer pending
            # awaitables with the same kind, key and observed text/data are interchangeable: which of them is "#1" depends on the start order,
            # so pending sets are compared as multisets of bases and the completed one is any pending awaitable with the chosen base
            if sorted(_base(l) for l in real) != sorted(_base(l) for l in expected_pending[step]):
                raise ConformanceFailure(step, real, set(expected_pending[step]), schedule)
            G.release(min(l for l in real if _base(l) == _base(label)))
        await quiesce()
        left = {l for l, f in G.pending.items() if not f.done()}
        if left or not task.done():
            raise ConformanceFailure(len(schedule), left, set(), schedule)
        try:
            return "ok", task.result()
        except BaseException as e:  # pylint:disable=broad-except
            return "raised", e
    finally:
        if not task.done():
            task.cancel()
            for f in list(G.pending.values()):
                f.cancel()
            try:
                await task
            except BaseException:  # pylint:disable=broad-except
                pass


# ------------------------------------------------------------------ schedules from the TLC state dump
def settled_graph(states):
    """states: iterable of dumped states of Async.tla. -> (graph: frozenset(completed) -> pending set, initial key)"""
    g = {}
    for st in states:
        o = st["obs"]
        if o["settled"]:
            key = frozenset(o["completed"])
            pend = frozenset(o["pending"])
            if key in g and g[key] != pend:
                raise RuntimeError("settled state is not a function of the completed set (internal steps are not confluent)")
            g[key] = pend
    return g


def count_paths(g, limit):
    memo = {}

    def go(k):
        if k in memo:
            return memo[k]
        if not g[k]:
            memo[k] = 1
            return 1
        n = 0
        for l in g[k]:
            n += go(k | {l})
            if n > limit:
                break
        memo[k] = n
        return n

    return go(frozenset())


def all_paths(g):
    out = []

    def go(k, path):
        if not g[k]:
            out.append(path)
            return
        for l in sorted(g[k]):
            go(k | {l}, path + [l])

    go(frozenset(), [])
    return out


def covering_paths(g, rng, extra_random=0):
    """paths that together take every transition of the settled graph, plus `extra_random` seeded random paths"""
    uncovered = {(k, l) for k in g for l in g[k]}
    paths = []

    def walk(prefer):
        k, path = frozenset(), []
        while g[k]:
            cand = sorted(g[k])
            fresh = [l for l in cand if (k, l) in uncovered]
            l = rng.choice(fresh) if (prefer and fresh) else rng.choice(cand)
            uncovered.discard((k, l))
            path.append(l)
            k = k | {l}
        return path

    guard = 0
    while uncovered and guard < 20000:
        paths.append(walk(True))
        guard += 1
    for _ in range(extra_random):
        paths.append(walk(False))
    return paths


def pending_along(g, path):
    k = frozenset()
    out = []
    for l in path:
        out.append(g[k])
        k = k | {l}
    return out
