"""C18 - key extraction partitions keys by number range; all possible content evaluation results are enumerated (Keys.tla)."""
import asyncio
import multiprocessing as mp
import random

from common import MachineryError, Result, Work, dump_states, main_wrapper, printt_values, run_tlc, seed, tier

PID = "C18"
POOL_Q = [2, 10, 9, 499, 500, 900, 901, 999, 2000, 1000]
POOL_T = [1, 2, 10, 11, 9, 100, 499, 500, 501, 900, 901, 902, 999, 2000, 2005, 2499, 0, 1000, 2500]


def write_model(work, pool, maxlen):
    mod = work.path("MC_Keys.tla")
    items = ", ".join(f'[t |-> "key", n |-> {n}]' for n in pool) + ', [t |-> "pkg", n |-> 12], [t |-> "pkg", n |-> 3], [t |-> "time", n |-> 1], [t |-> "time", n |-> 3]'
    mod.write_text(f"---- MODULE MC_Keys ----\nEXTENDS Keys\nMCPool == {{{items}}}\n"
                   'ASSUME PrintT(<<"CLASSTABLE", [n \\in 0..MaxKey |-> Class(n)]>>)\n====\n')
    cfg = work.path("MC_Keys.cfg")
    cfg.write_text(f"CONSTANTS\n Pool <- MCPool\n MaxLen = {maxlen}\n MaxKey = 2600\nINIT MCInit\nNEXT MCNext\nINVARIANT UnionLaw\nINVARIANT OncePerCategory\n"
                   "INVARIANT ProductSize\nCHECK_DEADLOCK FALSE\n")
    return str(mod), str(cfg)


def render(ops, rng):
    parts = []
    for o in ops:
        if o["t"] == "key":
            parts.append(f"[{o['n']}]")
        elif o["t"] == "pkg":
            parts.append(f"[{o['n']}P]" if rng.random() < 0.7 else f"[{o['n']}P0..1]")
        else:
            parts.append(f"[UB{o['n']}]")
    s = parts[0]
    for p in parts[1:]:
        op = rng.choice([" U ", " O ", " X ", "∧", "", " u "])
        s = f"({s}){op}{p}" if rng.random() < 0.3 else f"{s}{op}{p}"
    return s


class Acc:
    def __init__(self):
        self.viol, self.samples, self.counts, self.distinct = [], [], {}, set()

    def c(self, k, n=1):
        self.counts[k] = self.counts.get(k, 0) + n

    def v(self, d, case):
        if len(self.viol) < 40:
            self.viol.append((d, case))


def as_lists(e):
    return ([str(x) for x in e["rc"]], [str(x) for x in e["hint"]], [str(x) for x in e["fc"]],
            sorted(f"{x}P" for x in e["pkg"]), sorted(f"UB{x}" for x in e["time"]))


def real_lists(x):
    return (list(x.requirement_constraint_keys), list(x.hint_keys), list(x.format_constraint_keys), sorted(x.package_keys), sorted(x.time_condition_keys))


async def check_state(st, idx, sd, acc):
    from ahbicht.expressions.condition_expression_parser import extract_categorized_keys, extract_categorized_keys_from_tree, parse_condition_expression_to_tree
    from ahbicht.models.condition_nodes import ConditionFulfilledValue as CFV
    ops = list(st["ops"])
    if not ops:
        return
    rng = random.Random(sd * 1000003 + idx)
    expr = render(ops, rng)
    o = st["obs"]
    case = {"expr": expr, "ops": ops}
    acc.c("extractions")
    if len(ops) >= 2:
        acc.distinct.add(hash(repr(ops)))
    try:
        x = await extract_categorized_keys(expr)
        got = "ok"
    except ValueError:
        got = "ValueError"
    except BaseException as e:  # pylint:disable=broad-except
        acc.v(f"extract_categorized_keys({expr!r}) raised {type(e).__name__}: {e}", case)
        return
    if o["rejected"]:
        if got != "ValueError":
            acc.v(f"{expr!r} contains a key outside the documented ranges but extraction returned {real_lists(x)} instead of rejecting it", case)
        return
    if got != "ok":
        acc.v(f"extract_categorized_keys({expr!r}) rejected the expression although every key is in a documented range", case)
        return
    exp = as_lists(o["extract"])
    if real_lists(x) != exp or len(x.package_keys) != len(set(x.package_keys)) or len(x.time_condition_keys) != len(set(x.time_condition_keys)):
        acc.v(f"extract_categorized_keys({expr!r}) = (rc, hint, fc, packages, time) {real_lists(x)} (raw packages {x.package_keys}, time {x.time_condition_keys}); "
              f"documented: {exp}", case)
        return
    y = extract_categorized_keys_from_tree(parse_condition_expression_to_tree(expr), sanitize=True)
    if real_lists(y) != exp:
        acc.v(f"extract_categorized_keys_from_tree({expr!r}, sanitize=True) = {real_lists(y)}, documented {exp}", case)
    # union law on the real objects: split the operand list anywhere
    if len(ops) >= 2:
        i = rng.randint(1, len(ops) - 1)
        a = await extract_categorized_keys(render(ops[:i], rng))
        b = await extract_categorized_keys(render(ops[i:], rng))
        u = a + b
        if real_lists(u) != exp or len(u.package_keys) != len(set(u.package_keys)) or len(u.time_condition_keys) != len(set(u.time_condition_keys)):
            acc.v(f"extract of {expr!r} is {exp} but the sum of the extracts of its two parts is {real_lists(u)} (raw time {u.time_condition_keys})", case)
    # all possible content evaluation results
    m, n = len(exp[0]), len(exp[2])
    if m + n >= 1 and m <= 4 and n <= 4:
        try:
            cers = x.generate_possible_content_evaluation_results()
        except Exception as e:  # noqa: BLE001 - total: the enumeration exists for every extract
            acc.v(f"generate_possible_content_evaluation_results for rc {exp[0]} / fc {exp[2]} raised {type(e).__name__}: {str(e)[:160]}", case)
            return
        acc.c("cer_sets")
        keyset = set()
        bad = None
        for c in cers:
            if sorted(c.requirement_constraints, key=int) != exp[0] or sorted(c.format_constraints, key=int) != exp[2]:
                bad = f"a result with keys {sorted(c.requirement_constraints)} / {sorted(c.format_constraints)}"
                break
            if any(v not in (CFV.FULFILLED, CFV.UNFULFILLED, CFV.UNKNOWN) for v in c.requirement_constraints.values()):
                bad = "a result with a state other than FULFILLED/UNFULFILLED/UNKNOWN"
                break
            keyset.add((tuple(sorted((k, str(v)) for k, v in c.requirement_constraints.items())),
                        tuple(sorted((k, v.format_constraint_fulfilled) for k, v in c.format_constraints.items()))))
        if bad:
            acc.v(f"generate_possible_content_evaluation_results for {exp[0]} / {exp[2]} contains {bad}", case)
        elif len(cers) != o["ncers"] or len(keyset) != o["ncers"]:
            acc.v(f"generate_possible_content_evaluation_results for rc {exp[0]} / fc {exp[2]}: {len(cers)} results, {len(keyset)} distinct; the product has "
                  f"{o['ncers']} combinations", case)
        elif len(acc.samples) < 3 and m + n >= 3 and rng.random() < 0.02:
            acc.samples.append({"expr": expr, "extract": exp, "combinations": len(cers)})


def _worker(args):
    dump, shard, nshards, sd = args
    import ahb
    ahb.configure()
    acc = Acc()

    async def go():
        idx = -1
        for st in dump_states(dump, shard, nshards):
            idx += 1
            try:
                await check_state(st, idx * nshards + shard, sd, acc)
            except Exception as e:
                raise MachineryError(f"harness exception on {st}: {type(e).__name__}: {e}") from e
            if len(acc.viol) >= 40:
                break

    asyncio.run(go())
    return acc.viol, acc.samples, acc.counts, acc.distinct


PKG_BODIES = {12: ("[3] U [UB3]", [("key", 3), ("time", 3)]), 3: ("[950] O [7] U [2000]", [("key", 950), ("key", 7), ("key", 2000)]),
              7: ("[12P] U [501][901]", [("pkg", 12), ("key", 501), ("key", 901)]), 21: ("[UB1] X [UB2]", [("time", 1), ("time", 2)])}
TIME_KEYS = {1: [932], 2: [934], 3: [932, 492, 934, 493]}


def substituted_operands(ops, packages=True, times=True):
    """operands of the expression after one level of package expansion and / or time-condition replacement"""
    level1 = []
    for o in ops:
        if o["t"] == "pkg" and packages:
            level1 += [{"t": t, "n": n} for t, n in PKG_BODIES[o["n"]][1]]
        else:
            level1.append(o)
    out = []
    for o in level1:
        if o["t"] == "time" and times:
            out += [{"t": "key", "n": k} for k in TIME_KEYS[o["n"]]]
        else:
            out.append(o)
    return out


def long_expressions(res, work, n):
    """real extraction for random expressions with 8-20 operands over the whole key range, decided by TLC (KeysTrace.tla)"""
    import ahb
    ahb.configure()
    from common import validate_traces
    from ahbicht.expressions.condition_expression_parser import extract_categorized_keys
    rng = random.Random(seed() * 401 + 18)
    traces = []

    def rand_key():
        k = rng.random()
        if k < 0.45:
            return rng.randint(1, 499)
        if k < 0.6:
            return rng.randint(500, 900)
        if k < 0.75:
            return rng.randint(901, 999)
        if k < 0.9:
            return rng.randint(2000, 2499)
        if k < 0.97:
            return rng.choice([1, 9, 10, 99, 100, 499, 500, 900, 901, 999, 2000, 2499])
        return rng.choice([0, 1000, 1500, 1999, 2500, 2600])

    async def go():
        for tid in range(1, n + 1):
            ops = []
            for _ in range(rng.randint(8, 20)):
                k = rng.random()
                if k < 0.85:
                    ops.append({"t": "key", "n": rand_key() if rng.random() < 0.8 or not ops else rng.choice(ops)["n"]})
                elif k < 0.93:
                    ops.append({"t": "pkg", "n": rng.randint(1, 30)})
                else:
                    ops.append({"t": "time", "n": rng.randint(1, 3)})
            # the two flags independently: the extract is the extract of the expression after exactly the requested substitutions (C10)
            resolve_p, resolve_t = [(False, False), (False, False), (True, True), (False, True), (True, False), (True, True)][tid % 6]
            if resolve_p:
                for o in ops:
                    if o["t"] == "pkg":
                        o["n"] = rng.choice(list(PKG_BODIES))
            ahb.set_cer_values(packages={f"{n}P": body[0] for n, body in PKG_BODIES.items()})
            expr = render(ops, rng)
            if rng.random() < 0.5:
                # history: the same string was asked before with other flag values (the answer belongs to the call, not to the string)
                hp, ht = rng.choice([c for c in [(False, False), (True, True), (False, True), (True, False)] if c != (resolve_p, resolve_t)])
                try:
                    await extract_categorized_keys(expr, resolve_packages=hp, replace_time_conditions=ht)
                except BaseException:  # noqa: BLE001 - only the judged call counts
                    pass
                res.count("long_expressions_asked_before_with_other_flags")
            try:
                x = await extract_categorized_keys(expr, resolve_packages=resolve_p, replace_time_conditions=resolve_t)
                if resolve_p or resolve_t:
                    ops = substituted_operands(ops, resolve_p, resolve_t)
                rc, hint, fc, pkg, tm = real_lists(x)
                ncers = -1
                if len(rc) + len(fc) >= 1 and len(rc) <= 4 and len(fc) <= 4:
                    try:
                        ncers = len(x.generate_possible_content_evaluation_results())
                    except Exception as e:  # noqa: BLE001 - total
                        res.violation(f"generate_possible_content_evaluation_results for the extract of {expr!r} raised {type(e).__name__}: {str(e)[:160]}", {"expr": expr})
                        ncers = -2
                if len(x.package_keys) != len(set(x.package_keys)) or len(x.time_condition_keys) != len(set(x.time_condition_keys)):
                    res.violation(f"extract of {expr!r} lists a package or time condition twice: {x.package_keys} {x.time_condition_keys}", {"expr": expr})
                t = {"id": tid, "ops": ops, "rejected": False, "ncers": ncers,
                     "extract": {"rc": [int(k) for k in rc], "hint": [int(k) for k in hint], "fc": [int(k) for k in fc],
                                 "pkg": [int(k[:-1]) for k in pkg], "time": [int(k[2:]) for k in tm]}}
            except ValueError:
                t = {"id": tid, "ops": ops, "rejected": True, "ncers": -1, "extract": {"rc": [], "hint": [], "fc": [], "pkg": [], "time": []}}
            t["expr"] = expr
            traces.append(t)

    asyncio.run(go())
    slim = [{k: v for k, v in t.items() if k != "expr"} for t in traces]
    t2, acc, diag = validate_traces("KeysTrace", "KeysTrace.cfg", slim, work, tag="keystrace")
    res.add_tlc(f"KeysTrace: real extracts of {len(traces)} random expressions with 8-20 operands decided by TLC against Extract / the product size", t2)
    res.count("long_expressions", len(traces))
    for t in traces:
        res.distinct(("long", t["expr"]))
        if t["id"] not in acc:
            at, exp = diag.get(t["id"], (0, ()))
            res.violation(f"extract_categorized_keys({t['expr']!r}) = {t['extract']} (rejected={t['rejected']}, {t['ncers']} generated results); documented: {exp}",
                          {"expr": t["expr"]})


def run():
    from c02 import merge
    res = Result(PID)
    work = Work(PID)
    thorough = tier() == "thorough"
    mod, cfg = write_model(work, POOL_T if thorough else POOL_Q, 4 if not thorough else 4)
    dump = work.path("keys.dump")
    t = run_tlc(mod, cfg, work, dump=dump, timeout=3000)
    res.add_tlc("Keys: partition of 0..2600 (ASSUME), union law, once-per-category ascending order, |AllCers| = 3^m 2^n; every operand sequence <= 4 over the pool", t)
    tables = printt_values(t["out"], "CLASSTABLE")
    if not tables:
        raise MachineryError("TLC did not print the class table")
    table = tables[0][1]
    # the class of every key number 0..2600 (and a few beyond) against derive_condition_node_type
    import ahb  # noqa: F401
    from ahbicht.condition_node_distinction import derive_condition_node_type
    from ahbicht.models.condition_node_type import ConditionNodeType as T
    names = {T.REQUIREMENT_CONSTRAINT: "rc", T.REPEATABILITY_CONSTRAINT: "rc", T.HINT: "hint", T.FORMAT_CONSTRAINT: "fc"}
    items = table.items() if isinstance(table, dict) else enumerate(table)
    for n, cls in items:
        try:
            got = names.get(derive_condition_node_type(str(n)), "other")
        except ValueError:
            got = "reject"
        res.count("evaluations")
        if got != cls:
            res.violation(f"key {n}: derive_condition_node_type says {got}, the documented ranges say {cls}", {"key": n})
    for n in (2601, 5000, 99999, 123456789):
        try:
            derive_condition_node_type(str(n))
            res.violation(f"key {n} is outside every documented range but is not rejected", {"key": n})
        except ValueError:
            pass
    if str(derive_condition_node_type("17P")) != "PACKAGE":
        res.violation("17P is not classified as a package", {"key": "17P"})
    with mp.get_context("fork").Pool(16) as pool:
        merge(res, pool.map(_worker, [(str(dump), i, 16, seed()) for i in range(16)]))
    dump.unlink()
    long_expressions(res, work, 1500 if thorough else 200)
    res.coverage["traces_validated_against_impl"] = res.coverage.get("extractions", 0) + 2601 + res.coverage.get("long_expressions", 0)
    res.coverage["evaluations"] = res.coverage.get("evaluations", 0) + res.coverage.get("extractions", 0)
    res.coverage["exhaustive"] = True
    res.coverage["rule"] = ("(a) every key number 0..2600 against the documented ranges; (b) every sequence of <= 4 operands over a pool of boundary keys (incl. keys whose "
                            "string order differs from their numeric order, out-of-range keys, two packages, two time conditions), rendered as an expression: "
                            "extract per category in ascending numeric order without duplicates, rejection of out-of-range keys, union law on the real "
                            "objects, and the generated content evaluation results as a duplicate-free list of valid combinations of the right size; "
                            "non-trivial = at least 2 operands. m = n = 0 is recorded, not judged (DESIGN 6.5)")
    return res.finish(work)


def replay(case):
    import ahb
    ahb.configure()
    from ahbicht.expressions.condition_expression_parser import extract_categorized_keys
    if "expr" in case:
        try:
            x = asyncio.run(extract_categorized_keys(case["expr"]))
            print(case["expr"], "->", real_lists(x), len(x.generate_possible_content_evaluation_results()), "combinations")
        except BaseException as e:  # pylint:disable=broad-except
            print(case["expr"], "raised", type(e).__name__, e)
    else:
        from ahbicht.condition_node_distinction import derive_condition_node_type
        try:
            print(case["key"], derive_condition_node_type(str(case["key"])))
        except ValueError as e:
            print(case["key"], "ValueError", e)
    # the documented extract / class of the case lives in the specification's state space: the verdict comes from re-running the check
    print("re-deciding with the quick tier of the check")
    return run()


if __name__ == "__main__":
    main_wrapper(run)
