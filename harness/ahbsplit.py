"""Rendering of AhbSplit.tla token sequences into concrete AHB expressions and projection of the real resolver's tree
into the parts (normalised indicator, grouping) the specification talks about. Shared by C02 and C09."""
import random

import condparse as CP

# (the grammar matches the indicator words case-insensitively; in Unicode that includes U+017F LATIN SMALL LETTER LONG S for s and U+212A KELVIN SIGN for k)
MODAL_WORDS = {"M": ["M", "m", "Muss", "muss", "MUSS", "mUss", "MuSs", "Mu\u017fs", "mu\u017f\u017f"],
               "S": ["S", "s", "Soll", "soll", "SOLL", "sOLl", "\u017foll", "\u017f"],
               "K": ["K", "k", "Kann", "kann", "KANN", "kaNN", "\u212aann", "\u212a"]}
NORM = {"M": "MUSS", "MUSS": "MUSS", "S": "SOLL", "SOLL": "SOLL", "K": "KANN", "KANN": "KANN", "U": "U", "X": "X", "O": "O"}
MODAL = ("M", "S", "K")


def chunks(toks):
    """token sequence -> list of (indicator token or None, condition tokens)"""
    out = []
    cur = None
    for i, t in enumerate(toks):
        if t in MODAL:
            if cur is not None:
                out.append(cur)
            cur = (t, [])
        elif i == 0 and t in ("U", "X", "O"):
            cur = ("P" + t, [])
        else:
            if cur is None:
                cur = (None, [])
            cur[1].append(t)
    if cur is not None:
        out.append(cur)
    return out


def render(toks, rng, plain=False, kinds=("key",)):
    """-> (string, [(indicator token, condition tokens, leaf texts)])"""
    s = ""
    info = []
    cs = chunks(toks)
    for n, (ind, cond) in enumerate(cs):
        if ind is not None:
            if ind.startswith("P"):
                s += ind[1] if plain else rng.choice([ind[1], ind[1].lower()])
            else:
                s += ind if plain else rng.choice(MODAL_WORDS[ind])
        leaves = []
        if cond:
            c, leaves = CP.render_tokens(cond, None if plain else rng, plain=plain, kinds=kinds)
            if ind is not None and not plain:
                c = rng.choice(["", " ", "  ", "\t"]) + c
            s += c
        elif ind is not None and not plain and n < len(cs) - 1:
            # a bare indicator that is NOT the last part (never well-formed): with and without white space behind it
            s += rng.choice(["", " ", "  ", "\t", " \n "])
        info.append((ind, cond, leaves))
    return s, info


def project(tree, info):
    """real tree of parse_expression_including_unresolved_subexpressions -> tuple of (normalised indicator, grouping) per part,
    or ('cond', grouping) when the string was a plain condition expression"""
    import ahb
    from lark import Token, Tree
    if str(tree.data) != "ahb_expression":
        t, texts = CP.canon(ahb.cond_tree_binary(tree), CP.bracket_spans(info[0][1]))
        return ("cond", t, texts)
    parts = []
    for k, child in enumerate(tree.children):
        d = str(child.data)
        cond_toks = info[k][1] if k < len(info) else []
        if d == "single_requirement_indicator_expression":
            indtok, cond = child.children
            norm = NORM.get(str(indtok.value).casefold().upper(), "?" + str(indtok.value))
            if isinstance(cond, Tree):
                t, texts = CP.canon(ahb.cond_tree_binary(cond), CP.bracket_spans(cond_toks))
            else:
                t, texts = ("unparsed", str(cond)), []
            parts.append((norm, t, texts))
        elif d == "requirement_indicator":
            indtok = child.children[0]
            parts.append((NORM.get(str(indtok.value).casefold().upper(), "?" + str(indtok.value)), (), []))
        else:
            parts.append(("?" + d, (), []))
    return ("ahb", tuple(parts))
