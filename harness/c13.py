"""C13 - validation covers the AHB tree once, in document order; parents dominate children (Validation.tla)."""
import valcheck as V
from common import Result, Work, main_wrapper, run_tlc, tier

PID = "C13"
SMALL = ["MUSS.T", "MUSS.F", "SOLL.T", "KANN.T", "KANN.F", "PFX.T", "SOLL.K", "INV.T"]
POOLS2 = [("T",), ("F",), ("T", "F"), ("F", "T"), ("F", "F"), ("T", "T"), ("I", "F"), ("K", "T")]


def run():
    res = Result(PID)
    work = Work(PID)
    thorough = tier() == "thorough"
    mod, cfg = V.write_model(work, "all3", 3, V.ALL_LABELS, V.ALL_LABELS, POOLS2, ["none", "q1", "q2", "zz"], V.ALL_INVARIANTS)
    dump = work.path("v3.dump")
    t = run_tlc(mod, cfg, work, dump=dump, timeout=3000)
    res.add_tlc("Validation: every AHB <= 3 nodes, all 13 labels per node, pools <= 2 entries; six invariants", t)
    V.replay_dump("C13", dump, res)
    dump.unlink()
    n = 5 if thorough else 4
    # (8 labels on 5 nodes gave a 13 GB state dump and more than an hour: the thorough tier goes one node deeper over 5 labels)
    labs = ["MUSS.T", "MUSS.F", "SOLL.T", "KANN.T", "INV.T"] if thorough else SMALL
    mod4, cfg4 = V.write_model(work, "small", n, labs, (labs if thorough else SMALL[:6] + ["INV.T"]), [("T", "F"), ("F", "F")], ["none", "q1"], V.ALL_INVARIANTS)
    dump4 = work.path("v4.dump")
    t4 = run_tlc(mod4, cfg4, work, dump=dump4, timeout=3000)
    res.add_tlc(f"Validation: every AHB <= {n} nodes over {len(labs)} labels (deeper nesting, several roots, siblings)", t4)
    V.replay_dump("C13", dump4, res, stride=(40 if thorough else 10))
    dump4.unlink()
    V.trace_validation(res, work, 2000 if thorough else 250, wide=((17, 31, 32, 33, 50, 63, 64, 65, 100, 129, 257) if thorough else (33, 65, 100)))
    res.coverage["exhaustive"] = True
    res.coverage["rule"] = ("one case = (AHB tree, soll flag): every tree <= 3 nodes with every label (indicator x outcome or INVALID) on every node, "
                            f"and a seeded 1/{40 if thorough else 10} sample of all trees <= {n} nodes over {len(labs)} labels; each is rendered with seeded expressions "
                            "(spellings, packages, hints, several modal marks) and validated with both flag values; the full result list "
                            "(nodes, order, status, FILLED/EMPTY) must equal the documented walk; plus real results for random AHBs of 5-30 nodes decided by TLC "
                            "(ValidationTrace), among them AHBs in which one node has 33 / 65 / 100 (thorough: up to 257) children; every third judged run is preceded, in the same "
                            "task, by a validation of the same AHB under another content evaluation result; non-trivial = at least 2 nodes")
    res.assumptions += ["node labels are realised through a fixed content evaluation result (keys 1,2 fulfilled; 3,4 unfulfilled; 5,6 unknown)",
                        "for value pools only forbidden-ness and FILLED/EMPTY are judged here (DESIGN 6.6b); offered values are judged by C17"]
    return res.finish(work)


def replay(case):
    return V.replay_case("C13", case)


if __name__ == "__main__":
    main_wrapper(run)
