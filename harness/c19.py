"""C19 - JSON serialisation round-trips trees, evaluation inputs and evaluation results (Codec.tla on the extracted field table +
round trips of every object the real code produces along behaviours enumerated by CondParser.tla / AhbSplit.tla / AhbEval.tla / Keys.tla)."""
import asyncio
import json
import multiprocessing as mp
import random
import uuid

import ahbsplit as AS
import condparse as CP
from common import MachineryError, Result, Work, dump_states, main_wrapper, printt_values, run_tlc, seed, tier, to_tla

PID = "C19"
# which fields ahbicht itself can fill with None (from the evaluator specifications: Eval.Outcome, FcEval messages, ...)
CAN_BE_NULL = {
    ("RequirementConstraintEvaluationResultSchema", "requirement_constraints_fulfilled"), ("RequirementConstraintEvaluationResultSchema", "requirement_is_conditional"),
    ("RequirementConstraintEvaluationResultSchema", "format_constraints_expression"), ("RequirementConstraintEvaluationResultSchema", "hints"),
    ("FormatConstraintEvaluationResultSchema", "error_message"), ("EvaluatedFormatConstraintSchema", "error_message"),
    ("ContentEvaluationResultSchema", "packages"), ("ContentEvaluationResultSchema", "id"),
}


def schemas():
    from ahbicht.json_serialization.tree_schema import TokenSchema, TreeSchema
    from ahbicht.models.categorized_key_extract import CategorizedKeyExtractSchema
    from ahbicht.models.condition_nodes import EvaluatedFormatConstraintSchema
    from ahbicht.models.content_evaluation_result import ContentEvaluationResultSchema
    from ahbicht.models.evaluation_results import (AhbExpressionEvaluationResultSchema, FormatConstraintEvaluationResultSchema,
                                                   RequirementConstraintEvaluationResultSchema)
    return [RequirementConstraintEvaluationResultSchema, FormatConstraintEvaluationResultSchema, AhbExpressionEvaluationResultSchema,
            EvaluatedFormatConstraintSchema, ContentEvaluationResultSchema, CategorizedKeyExtractSchema, TokenSchema, TreeSchema]


def field_table():
    import marshmallow
    rows = []
    for cls in schemas():
        for name, f in cls()._declared_fields.items():
            rows.append({"schema": cls.__name__, "name": name, "allow_none": bool(f.allow_none), "required": bool(f.required),
                         "has_default": f.load_default is not marshmallow.missing, "can_be_null": (cls.__name__, name) in CAN_BE_NULL})
    return rows


def roundtrip(schema_cls, obj):
    s = schema_cls()
    return s.load(json.loads(json.dumps(s.dump(obj))))


class Acc:
    def __init__(self):
        self.viol, self.samples, self.counts, self.distinct = [], [], {}, set()

    def c(self, k, n=1):
        self.counts[k] = self.counts.get(k, 0) + n

    def v(self, d, case):
        if len(self.viol) < 40:
            self.viol.append((d, case))

    def rt(self, schema_cls, obj, what, case, eq=None):
        self.c("round_trips")
        try:
            back = roundtrip(schema_cls, obj)
        except BaseException as e:  # pylint:disable=broad-except
            self.v(f"{what}: {schema_cls.__name__} cannot load what it dumped for {obj!r}: {type(e).__name__}: {str(e)[:200]}", case)
            return None
        same = eq(back, obj) if eq else back == obj
        if not same:
            self.v(f"{what}: round trip through {schema_cls.__name__} changed {obj!r} into {back!r}", case)
            return None
        return back


async def tree_state(st, idx, sd, acc):
    """accepted token sequences of AhbSplit.tla: parse / resolve with the real code, round-trip the tree, evaluate both"""
    import ahb
    from ahbicht.expressions.ahb_expression_evaluation import evaluate_ahb_expression_tree
    from ahbicht.expressions.expression_resolver import parse_expression_including_unresolved_subexpressions
    from ahbicht.json_serialization.tree_schema import TreeSchema
    from ahbicht.models.evaluation_results import AhbExpressionEvaluationResultSchema
    if not st["obs"]["acc"]:
        return
    rng = random.Random(sd * 1000003 + idx)
    toks = list(st["consumed"])
    s, info = AS.render(toks, rng, kinds=("key", "key", "key", "pkg", "rep", "time"))
    case = {"kind": "tree", "string": s}
    if len(toks) >= 3:
        acc.distinct.add(hash(("tree", s)))
    for resolve, replace in ((False, False), (False, True)):
        try:
            tree = await parse_expression_including_unresolved_subexpressions(s, resolve_packages=resolve, replace_time_conditions=replace)
        except BaseException as e:  # pylint:disable=broad-except
            acc.v(f"parsing {s!r} raised {type(e).__name__}", case)
            return
        back = acc.rt(TreeSchema, tree, f"tree of {s!r} (replace_time_conditions={replace})", case)
        if back is None or str(tree.data) != "ahb_expression":
            continue
        # evaluating the round-tripped tree gives the same result as evaluating the original (expressions without packages only)
        if replace and "P" not in s.upper().replace("UB", ""):
            keys = {int(k) for part in info for kind, k in part[2] if kind == "key"}
            if all(1 <= k <= 999 or 2000 <= k <= 2499 for k in keys):
                rc = {k: rng.choice("FUK") for k in list(keys) + [492, 493] if 1 <= k <= 499 or 2000 <= k <= 2499}
                fc = {k: rng.random() < 0.5 for k in list(keys) + [932, 934] if 901 <= k <= 999}
                hints = {k: f"H{k}" for k in keys if 500 <= k <= 900}
                outs = []
                for t in (tree, back):
                    ahb.set_cer_values(rc=rc, fc=fc, hints=hints)
                    try:
                        outs.append(("ok", await evaluate_ahb_expression_tree(t)))
                    except BaseException as e:  # pylint:disable=broad-except
                        outs.append(("raised", type(e).__name__))
                acc.c("evaluations_of_round_tripped_trees")
                if outs[0] != outs[1]:
                    acc.v(f"evaluating the round-tripped tree of {s!r} gives {outs[1]}, the original gives {outs[0]}", case)
                elif outs[0][0] == "ok":
                    acc.rt(AhbExpressionEvaluationResultSchema, outs[0][1], f"evaluation result of {s!r} with {rc}", dict(case, rc=rc, fc=fc))


async def result_state(st, idx, sd, acc):
    """part lists of AhbEval.tla: evaluate with the real code and round-trip every result object that is produced"""
    import ahb
    from c09 import build_expression
    from ahbicht.expressions.ahb_expression_evaluation import evaluate_ahb_expression_tree
    from ahbicht.expressions.expression_resolver import parse_expression_including_unresolved_subexpressions
    from ahbicht.models.evaluation_results import (AhbExpressionEvaluationResultSchema, FormatConstraintEvaluationResultSchema,
                                                   RequirementConstraintEvaluationResultSchema)
    if st["result"] == ():
        return
    parts = list(st["parts"])
    rng = random.Random(sd * 1000003 + idx)
    expr, conds, rc, fc = build_expression(parts, rng)
    expr = expr.rstrip() if parts[-1]["bare"] else expr
    case = {"kind": "result", "expr": expr, "rc": rc, "fc": fc}
    ahb.set_cer_values(rc=rc, fc=fc, hints={500 + i: f"H{500 + i}" for i in range(1, 8)})
    try:
        r = await evaluate_ahb_expression_tree(await parse_expression_including_unresolved_subexpressions(expr))
    except BaseException as e:  # pylint:disable=broad-except
        acc.v(f"evaluating {expr!r} raised {type(e).__name__}", case)
        return
    acc.distinct.add(hash(("result", expr, tuple(sorted(rc.items())), tuple(sorted(fc.items())))))
    acc.rt(AhbExpressionEvaluationResultSchema, r, f"result of {expr!r} with {rc}", case)
    acc.rt(RequirementConstraintEvaluationResultSchema, r.requirement_constraint_evaluation_result, f"requirement result of {expr!r} with {rc}", case)
    acc.rt(FormatConstraintEvaluationResultSchema, r.format_constraint_evaluation_result, f"format result of {expr!r} with {fc}", case)
    if len(acc.samples) < 2 and r.requirement_constraint_evaluation_result.requirement_constraints_fulfilled is None:
        from ahbicht.models.evaluation_results import AhbExpressionEvaluationResultSchema as S
        acc.samples.append({"expr": expr, "rc": rc, "dumped": S().dump(r)})


async def key_state(st, idx, sd, acc):
    """operand sequences of Keys.tla: extracts (sanitized and raw) and every generated content evaluation result"""
    from c18 import render
    from ahbicht.expressions.condition_expression_parser import extract_categorized_keys, extract_categorized_keys_from_tree, parse_condition_expression_to_tree
    from ahbicht.models.categorized_key_extract import CategorizedKeyExtractSchema
    from ahbicht.models.condition_nodes import EvaluatedFormatConstraintSchema
    from ahbicht.models.content_evaluation_result import ContentEvaluationResultSchema
    ops = list(st["ops"])
    if not ops or st["obs"]["rejected"]:
        return
    rng = random.Random(sd * 1000003 + idx)
    expr = render(ops, rng)
    case = {"kind": "keys", "expr": expr}
    acc.distinct.add(hash(("keys", expr)))
    x = await extract_categorized_keys(expr)
    acc.rt(CategorizedKeyExtractSchema, x, f"sanitized key extract of {expr!r}", case)
    raw = extract_categorized_keys_from_tree(parse_condition_expression_to_tree(expr))
    acc.rt(CategorizedKeyExtractSchema, raw, f"key extract (as extracted, not sanitized) of {expr!r}", case)
    if len(x.requirement_constraint_keys) + len(x.format_constraint_keys) <= 3:
        for cer in x.generate_possible_content_evaluation_results():
            variant = rng.random()
            if variant < 0.2:
                cer.packages = None
            elif variant < 0.4:
                cer.packages = {"12P": "[1] U [2]"}
            if rng.random() < 0.3:
                cer.id = uuid.UUID(int=rng.getrandbits(128))
            if rng.random() < 0.3 and cer.hints:
                cer.hints[next(iter(cer.hints))] = None
            acc.rt(ContentEvaluationResultSchema, cer, f"content evaluation result for {expr!r}", case)
            for efc in cer.format_constraints.values():
                acc.rt(EvaluatedFormatConstraintSchema, efc, "evaluated format constraint", case)


def _worker(args):
    which, dump, shard, nshards, sd, stride = args
    import ahb
    ahb.configure()
    acc = Acc()
    fn = {"tree": tree_state, "result": result_state, "keys": key_state}[which]

    async def go():
        idx = -1
        for st in dump_states(dump, shard, nshards):
            idx += 1
            gi = idx * nshards + shard
            if stride > 1 and (gi + sd) % stride:
                continue
            try:
                await fn(st, gi, sd, acc)
            except Exception as e:
                raise MachineryError(f"harness exception on {st}: {type(e).__name__}: {e}") from e
            if len(acc.viol) >= 40:
                break

    asyncio.run(go())
    return acc.viol, acc.samples, acc.counts, acc.distinct


def codec_model(res, work):
    """TLC decides producer domain vs loader domain on the field table extracted from the real schemas"""
    import ahb  # noqa: F401
    rows = field_table()
    mod = work.path("MC_Codec.tla")
    mod.write_text("---- MODULE MC_Codec ----\nEXTENDS Codec\nMCFields == " + to_tla(tuple(rows)) + "\n====\n")
    cfg = work.path("MC_Codec.cfg")
    cfg.write_text("CONSTANTS\n Fields <- MCFields\nINIT Init\nNEXT Next\nINVARIANT RoundTrip\nCHECK_DEADLOCK FALSE\n")
    t = run_tlc(str(mod), str(cfg), work, workers=4, expect_violation=True, tag="codec")
    if t["error"]:
        raise MachineryError("TLC failed on the Codec model:\n" + t["out"][-1500:])
    res.add_tlc(f"Codec: RoundTrip over every producible null/value record of {len(schemas())} schemas ({len(rows)} fields, table extracted from the marshmallow objects)", t)
    failing = printt_values(t["out"], "FAILING")
    failing = set(failing[0][1]) if failing else set()
    res.coverage["extracted_field_table"] = rows
    # the model's verdict per nullable field must be reproduced by the real schema (this also validates the small model)
    import ahbicht.models.evaluation_results as er
    from ahbicht.models.condition_nodes import EvaluatedFormatConstraint, EvaluatedFormatConstraintSchema
    from ahbicht.models.content_evaluation_result import ContentEvaluationResult, ContentEvaluationResultSchema
    probes = {
        ("RequirementConstraintEvaluationResultSchema", "requirement_constraints_fulfilled"):
            (er.RequirementConstraintEvaluationResultSchema, er.RequirementConstraintEvaluationResult(requirement_constraints_fulfilled=None, requirement_is_conditional=True)),
        ("RequirementConstraintEvaluationResultSchema", "requirement_is_conditional"):
            (er.RequirementConstraintEvaluationResultSchema, er.RequirementConstraintEvaluationResult(requirement_constraints_fulfilled=True, requirement_is_conditional=None)),
        ("RequirementConstraintEvaluationResultSchema", "format_constraints_expression"):
            (er.RequirementConstraintEvaluationResultSchema, er.RequirementConstraintEvaluationResult(requirement_constraints_fulfilled=True, requirement_is_conditional=True, format_constraints_expression=None, hints="h")),
        ("RequirementConstraintEvaluationResultSchema", "hints"):
            (er.RequirementConstraintEvaluationResultSchema, er.RequirementConstraintEvaluationResult(requirement_constraints_fulfilled=True, requirement_is_conditional=True, format_constraints_expression="[901]", hints=None)),
        ("FormatConstraintEvaluationResultSchema", "error_message"):
            (er.FormatConstraintEvaluationResultSchema, er.FormatConstraintEvaluationResult(format_constraints_fulfilled=True, error_message=None)),
        ("EvaluatedFormatConstraintSchema", "error_message"): (EvaluatedFormatConstraintSchema, EvaluatedFormatConstraint(True, None)),
        ("ContentEvaluationResultSchema", "packages"): (ContentEvaluationResultSchema, ContentEvaluationResult(hints={}, format_constraints={}, requirement_constraints={}, packages=None)),
        ("ContentEvaluationResultSchema", "id"): (ContentEvaluationResultSchema, ContentEvaluationResult(hints={}, format_constraints={}, requirement_constraints={}, packages={}, id=None)),
    }
    for key, (cls, obj) in probes.items():
        res.count("evaluations")
        try:
            ok = roundtrip(cls, obj) == obj
        except BaseException:  # pylint:disable=broad-except
            ok = False
        predicted_fail = tuple(key) in failing or key in failing
        if ok and predicted_fail:
            raise MachineryError(f"the Codec model predicts a load failure for a null in {key} but the real schema round-trips it: the small model "
                                 "does not describe marshmallow here")
        if not ok:
            why = (f"allow_none is {[r['allow_none'] for r in rows if (r['schema'], r['name']) == key]}" if predicted_fail
                   else "although the field table allows null: the schema changes the value on the way (pre_load / post_load / defaults)")
            res.violation(f"{key[0]}.{key[1]} can be None in objects ahbicht produces, but dump -> load does not give the object back ({why})",
                          {"kind": "codec", "field": list(key)})
    if t["violated_invariant"] and not res.violations:
        raise MachineryError("TLC reports a RoundTrip violation that no probe reproduces")


def deep_trees(res):
    """trees the parser produces for deeply nested expressions must round-trip as well"""
    import ahb  # noqa: F401
    from ahbicht.expressions.condition_expression_parser import parse_condition_expression_to_tree
    from ahbicht.json_serialization.tree_schema import TreeSchema
    for depth in (30, 45, 60, 120):
        expr = "".join(f"[{i}] U (" for i in range(1, depth)) + f"[{depth}]" + ")" * (depth - 1)
        tree = parse_condition_expression_to_tree(expr)
        res.count("round_trips")
        try:
            back = roundtrip(TreeSchema, tree)
            if back != tree:
                res.violation(f"round trip of the tree of an expression nested {depth} levels deep changed the tree", {"kind": "deep-tree", "depth": depth})
        except RecursionError:
            res.violation(f"TreeSchema cannot serialise/load the tree of an expression nested {depth} levels deep (RecursionError)",
                          {"kind": "deep-tree", "depth": depth}, match_key="treeschema-recursion-deep-tree")
        except BaseException as e:  # pylint:disable=broad-except
            res.violation(f"TreeSchema on the tree of an expression nested {depth} levels deep raised {type(e).__name__}", {"kind": "deep-tree", "depth": depth})


def leaf_families(res):
    """histories: trees that differ in ONE token of one leaf (repeatability, key, time condition, indicator spelling) are round-tripped one after the other
    in one process, in both orders - a round trip is a function of the object, not of what was dumped or loaded before"""
    import ahb  # noqa: F401
    from ahbicht.expressions.ahb_expression_parser import parse_ahb_expression_to_single_requirement_indicator_expressions
    from ahbicht.expressions.condition_expression_parser import parse_condition_expression_to_tree
    from ahbicht.json_serialization.concise_condition_key_tree_schema import ConciseConditionKeyTreeSchema
    from ahbicht.json_serialization.concise_tree_schema import ConciseTreeSchema
    from ahbicht.json_serialization.tree_schema import TreeSchema
    rng = random.Random(seed() * 31 + 19)
    pk = rng.randint(1, 99)
    k = rng.randint(1, 400)
    family = [f"[{pk}P]", f"[{pk}P0..1]", f"[{pk}P1..5]", f"[{pk}P0..1] U [{k}]", f"[{pk}P] U [{k}]", f"[{pk}P1..5] U [{k}]", f"[{pk}]", f"[{pk}] U [{k}]",
              "[UB1]", "[UB2]", "[UB3]", f"[UB1] U [{k}]", f"[UB2] U [{k}]", f"[{k}]", f"[{k}0]", f"[{k}] X [{k}]", f"[{k}] X [{k}0]",
              f"[{k}][9{pk:02d}]", f"[{k}][9{(pk % 98) + 1:02d}]"]
    ahb_family = [f"Muss [{k}]", f"muss [{k}]", f"M [{k}]", f"Soll [{k}]", f"Muss [{k}] Kann", f"Muss [{k}] Soll", f"X [{k}]", f"x [{k}]", f"Muss [{pk}P0..1]", f"Muss [{pk}P]"]
    objs = [(e, parse_condition_expression_to_tree(e)) for e in family] + \
           [(e, parse_ahb_expression_to_single_requirement_indicator_expressions(e)) for e in ahb_family]
    for order, seq in (("as listed", objs), ("reversed", objs[::-1]), ("shuffled", rng.sample(objs, len(objs)))):
        for e, tree in seq:
            res.count("round_trips")
            case = {"kind": "leaf-family", "string": e, "order": order, "family": [x for x, _ in seq]}
            if order != "as listed":
                # the less-used serialisers of the same trees (dump only) and a load that fails are part of the history as well
                for other in (ConciseTreeSchema, ConciseConditionKeyTreeSchema):
                    try:
                        other().dump(tree)
                    except BaseException:  # pylint:disable=broad-except  # noqa: BLE001 - not judged (C19 does not speak about the concise formats)
                        pass
                try:
                    TreeSchema().load({"type": "condition", "children": [{"token": None, "tree": {"no": "tree"}}]})
                except BaseException:  # pylint:disable=broad-except  # noqa: BLE001 - a refused document
                    pass
            try:
                back = roundtrip(TreeSchema, tree)
            except BaseException as ex:  # pylint:disable=broad-except  # noqa: BLE001
                res.violation(f"TreeSchema cannot load what it dumped for the tree of {e!r} ({order}): {type(ex).__name__}", case)
                continue
            if back != tree:
                res.violation(f"round trip of the tree of {e!r} changed it into {back!r} after the trees of {[x for x, _ in seq][:seq.index((e, tree))]} "
                              f"had been round-tripped in the same process", case)


def shipped_fc_results(res):
    """evaluated format constraints as the SHIPPED date-time constraints 931-935 produce them (GermanTime.tla's domain and the edges of the representable
    range, other strings) alone and inside a content evaluation result"""
    import ahb  # noqa: F401
    from ahbicht.content_evaluation.fc_evaluators import FcEvaluator
    from ahbicht.models.condition_nodes import EvaluatedFormatConstraintSchema
    from ahbicht.models.content_evaluation_result import ContentEvaluationResult, ContentEvaluationResultSchema
    ev = type("Shipped", (FcEvaluator,), {})()
    acc = Acc()
    inputs = ["2022-12-31T23:00:00+00:00", "2022-06-01T04:00:00Z", "2022-06-01T12:00:00+02:00", "9999-12-31T23:30:00+00:00", "0001-01-01T00:00:00+05:00",
              "0001-01-01T00:00:00-05:00", "9999-12-31T23:59:59-12:00", "", "no datetime", "2022-01-01T00:00:00", "x" * 1200, None]
    for s in inputs:
        for k in (931, 932, 933, 934, 935):
            try:
                r = getattr(ev, f"evaluate_{k}")(s)
            except BaseException:  # pylint:disable=broad-except  # noqa: BLE001 - whether these raise is C20's business
                continue
            case = {"kind": "shipped-fc", "key": k, "string": s}
            acc.rt(EvaluatedFormatConstraintSchema, r, f"result of evaluate_{k}({s!r})", case)
            acc.rt(ContentEvaluationResultSchema, ContentEvaluationResult(hints={}, requirement_constraints={}, format_constraints={str(k): r}),
                   f"content evaluation result carrying the result of evaluate_{k}({s!r})", case)
    for d, c in acc.viol:
        res.violation(d, c)
    res.count("round_trips", acc.counts.get("round_trips", 0))


def run():
    from c02 import merge
    res = Result(PID)
    work = Work(PID)
    thorough = tier() == "thorough"
    codec_model(res, work)
    jobs = []
    ntok = 6 if thorough else 5
    cfga = work.path("ahbsplit.cfg")
    cfga.write_text(f"CONSTANTS\n MaxTok = {ntok}\n Alphabet = {{\"M\", \"S\", \"K\", \"a\", \"(\", \")\", \"U\", \"X\", \"O\"}}\nINIT MCInit\nNEXT MCNext\nINVARIANT ObsIsConsistent\nCHECK_DEADLOCK FALSE\n")
    d1 = work.path("split.dump")
    t1 = run_tlc("AhbSplit", str(cfga), work, dump=d1, timeout=3000)
    res.add_tlc(f"AhbSplit: accepted token sequences <= {ntok} as generator of AHB / condition trees", t1)
    jobs += [("tree", str(d1), i, 16, seed(), 1) for i in range(16)]
    cfge = work.path("ahbeval.cfg")
    cfge.write_text(f"CONSTANTS\n MaxParts = {3 if thorough else 2}\nINIT Init\nNEXT Next\nINVARIANT SelectedIsFirstFulfilledElseLast\nCHECK_DEADLOCK FALSE\n")
    d2 = work.path("eval.dump")
    t2 = run_tlc("AhbEval", str(cfge), work, dump=d2, timeout=3000)
    res.add_tlc("AhbEval: part lists with every outcome (incl. undetermined) as generator of evaluation results", t2)
    jobs += [("result", str(d2), i, 16, seed(), 1) for i in range(16)]
    import c18
    mod, cfgk = c18.write_model(work, c18.POOL_Q, 3)
    d3 = work.path("keys.dump")
    t3 = run_tlc(mod, cfgk, work, dump=d3, timeout=3000)
    res.add_tlc("Keys: operand sequences <= 3 as generator of key extracts and content evaluation results", t3)
    jobs += [("keys", str(d3), i, 16, seed(), 1 if thorough else 2) for i in range(16)]
    with mp.get_context("fork").Pool(16) as pool:
        merge(res, pool.map(_worker, jobs, chunksize=1))
    deep_trees(res)
    leaf_families(res)
    shipped_fc_results(res)
    res.coverage["traces_validated_against_impl"] = res.coverage.get("round_trips", 0)
    res.coverage["evaluations"] = res.coverage.get("evaluations", 0) + res.coverage.get("round_trips", 0)
    res.coverage["exhaustive"] = False
    res.coverage["rule"] = ("one case = one object produced by the real code along a TLC-enumerated behaviour (tree of an accepted expression incl. packages with "
                            "repeatability and time conditions, with/without time-condition replacement; AHB/requirement/format result of a part list with every "
                            "outcome; sanitized and raw key extract; every generated content evaluation result with seeded None/packages/id variants; evaluated "
                            "format constraints): dump -> json -> load must give an equal object, round-tripped trees must evaluate like the original; plus "
                            "the Codec model on the extracted field table")
    res.assumptions += ["marshmallow's behaviour beyond the null/required/default rules is observed on the real objects, not specified (DESIGN 9.1)",
                        "which fields can be None in produced objects is taken from the evaluator specifications (CAN_BE_NULL in harness/c19.py)"]
    return res.finish(work)


def replay(case):
    print("C19 replay re-runs the check (objects are produced by the real code along enumerated behaviours):", case.get("kind"), case.get("expr") or case.get("string") or case.get("field"))
    return run()


if __name__ == "__main__":
    main_wrapper(run)
