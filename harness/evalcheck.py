"""Shared engine of C04-C07: TLC enumerates every postfix program of Eval.tla (every expression up to the bound
under every RC assignment) with the machine's result in the state; every complete state is replayed through the
real requirement_constraint_evaluation and compared according to the property; the callbacks of the real
RequirementConstraintTransformer are recorded and validated by TLC against EvalTrace.tla."""
import asyncio
import itertools
import multiprocessing as mp
import os
import random
import re

from common import MachineryError, Result, Work, dump_states, run_tlc, seed, tier, to_tla, validate_traces

HINT_KEYS_POOL = [501, 502, 503]
FC_KEYS_POOL = [901, 902, 903]


# ------------------------------------------------------------------ abstract keys -> concrete key numbers
# The specification uses a handful of abstract keys (1, 2, 3 / 501.. / 901..). Every replayed state maps them, by seed, to concrete key numbers of the
# same class including the boundaries of the documented ranges (499, 500, 900, 901, 999, 2000, 2499), so that range slips show up in C04-C07 too.
KEY_ALTERNATIVES = {1: [1, 1, 499, 2000], 2: [2, 2, 2499, 17], 3: [3, 250, 2001], 501: [501, 501, 500, 900], 502: [502, 899, 600], 503: [503, 777, 890],
                    901: [901, 901, 999], 902: [902, 998, 950], 903: [903, 936, 987]}
_KM = {}          # current mapping abstract -> concrete (identity when empty)
_KM_INV = {}


def set_keymap(rng=None):
    _KM.clear()
    _KM_INV.clear()
    if rng is not None:
        for k, alts in KEY_ALTERNATIVES.items():
            c = rng.choice(alts)
            _KM[k] = c
            _KM_INV[c] = k


def conc(k):
    return _KM.get(k, k)


def abst(k):
    return _KM_INV.get(k, k)


# ------------------------------------------------------------------ abstract trees (as in Eval.tla)
def is_leaf(t):
    return t[0] == "leaf"


def has_rc(t):
    return t[1] == "rc" if is_leaf(t) else has_rc(t[1]) or has_rc(t[2])


def n_leaves(t):
    return 1 if is_leaf(t) else n_leaves(t[1]) + n_leaves(t[2])


def paths(t):
    if is_leaf(t):
        return [()]
    return [()] + [(1,) + p for p in paths(t[1])] + [(2,) + p for p in paths(t[2])]


def sub(t, p):
    return t if not p else sub(t[p[0]], p[1:])


def repl(t, p, n):
    if not p:
        return n
    l = list(t)
    l[p[0]] = repl(t[p[0]], p[1:], n)
    return tuple(l)


def keys_of(t, kind):
    if is_leaf(t):
        return {t[2]} if t[1] == kind else set()
    return keys_of(t[1], kind) | keys_of(t[2], kind)


def render(t, rng=None, top=True):
    """abstract tree -> expression string; every composite operand is bracketed, so nothing depends on the
    (unspecified) grouping of same-operator runs; operator spelling / whitespace / redundant outer brackets vary with rng."""
    import ahb
    if is_leaf(t):
        s = f"[{conc(t[2])}]"
        if rng is not None and rng.random() < 0.15:
            s = f"[ {conc(t[2])} ]"
        return s
    l = render(t[1], rng, False)
    r = render(t[2], rng, False)
    if not is_leaf(t[1]):
        l = "(" + l + ")"
    if not is_leaf(t[2]):
        r = "(" + r + ")"
    if t[0] == "then":
        op = "" if rng is None or rng.random() < 0.6 else " "
    else:
        sp = ahb.SPELL[t[0]]
        op = sp[0] if rng is None else rng.choice(sp)
        if rng is not None and rng.random() < 0.5:
            op = " " + op + " "
    s = l + op + r
    if top and rng is not None and rng.random() < 0.1:
        s = "(" + s + ")"
    return s


def render_with_packages(t, rng):
    """abstract tree -> (expression in which some operands are abbreviated by packages [nP], {nP: expression of the operand}); expanding the
    packages (bracketed textual substitution, C10) gives back an expression with the tree t"""
    pk = {}

    def go(n, top):
        if not top and len(pk) < 9 and rng.random() < (0.2 if is_leaf(n) else 0.45):
            key = f"{len(pk) + 1}P"
            pk[key] = render(n, rng)
            return "[" + key + rng.choice(["", "", "1..2", " 0..1"]) + "]", True
        if is_leaf(n):
            return f"[{conc(n[2])}]", True
        (l, la), (r, ra) = go(n[1], False), go(n[2], False)
        if not la:
            l = "(" + l + ")"
        if not ra:
            r = "(" + r + ")"
        op = rng.choice(["", " "]) if n[0] == "then" else rng.choice([" ", ""]) + rng.choice(__import__("ahb").SPELL[n[0]]) + rng.choice([" ", ""])
        return l + op + r, False

    return go(t, True)[0], pk


async def package_route(t, asg, rng):
    """resolve + evaluate: 'Muss <expression with packages>' through the resolver with resolve_packages=True and evaluate_ahb_expression_tree
    -> (fulfilled, conditional) as 'true'/'false'/'none', or an error name; None if no operand was abbreviated"""
    import ahb
    from ahbicht.expressions import InvalidExpressionError
    from ahbicht.expressions.ahb_expression_evaluation import evaluate_ahb_expression_tree
    from ahbicht.expressions.expression_resolver import parse_expression_including_unresolved_subexpressions
    expr, pk = render_with_packages(t, rng)
    if not pk:
        return None, expr, pk
    ahb.set_cer_values(rc={conc(k): v for k, v in asg.items()}, fc={conc(k): True for k in FC_KEYS_POOL}, hints={conc(k): ahb.hint_text(k) for k in HINT_KEYS_POOL},
                       packages=pk)
    try:
        tree = await parse_expression_including_unresolved_subexpressions("Muss " + expr, resolve_packages=True)
        r = (await evaluate_ahb_expression_tree(tree)).requirement_constraint_evaluation_result
    except InvalidExpressionError:
        return "invalid", expr, pk
    except NotImplementedError:
        return "unsupported", expr, pk
    except Exception as e:  # noqa: BLE001
        return f"exception:{type(e).__name__}: {e}"[:200], expr, pk
    return (B2S[r.requirement_constraints_fulfilled], B2S[r.requirement_is_conditional]), expr, pk


RANK = {"or": 1, "xor": 2, "and": 3, "then": 4}


def render_minimal(t, rng):
    """abstract tree -> expression with brackets only where the documented precedence (brackets > juxtaposition > AND >
    XOR > OR) needs them: an operand is bracketed iff it is a composition that does not bind tighter than its parent
    (same-operator operands stay bracketed because the grouping inside a run is unspecified and matters for validity).
    Spellings are mixed freely (letters in both cases and symbols in one expression)."""
    import ahb
    if is_leaf(t):
        return f"[{conc(t[2])}]"
    parts = []
    for c in (t[1], t[2]):
        s = render_minimal(c, rng)
        if not is_leaf(c) and RANK[c[0]] <= RANK[t[0]]:
            s = "(" + s + ")"
        parts.append(s)
    if t[0] == "then":
        op = rng.choice(["", " "])
    else:
        op = rng.choice(ahb.SPELL[t[0]])
        op = rng.choice([op, " " + op + " ", " " + op, op + " "])
    return parts[0] + op + parts[1]


def fcx_val(x, b):
    """value of a collected FC expression AST under b: True/False/None(absent)"""
    if x == ():
        return None
    if x[0] == "fc":
        return b[x[1]]
    l, r = fcx_val(x[1], b), fcx_val(x[2], b)
    return {"and": l and r, "or": l or r, "xor": l != r}[x[0]]


def fcx_keys(x):
    if x == ():
        return set()
    if x[0] == "fc":
        return {x[1]}
    return fcx_keys(x[1]) | fcx_keys(x[2])


def asg_of(state):
    a = state["asg"]
    if isinstance(a, tuple):
        return {i + 1: v for i, v in enumerate(a)}
    return dict(a)


OUTCOME = {"F": ("true", "true"), "N": ("true", "false"), "U": ("false", "true"), "K": ("none", "none")}
B2S = {True: "true", False: "false", None: "none"}


# ------------------------------------------------------------------ real evaluation
def real_fc_ast(expr):
    """real collected FC expression string -> AST as in Eval.tla, or raises ValueError if it is not a well-formed
    expression over format-constraint keys joined by U/O/X"""
    import ahb
    from ahbicht.expressions.condition_expression_parser import parse_condition_expression_to_tree
    try:
        tree = parse_condition_expression_to_tree(expr)
    except SyntaxError as e:
        raise ValueError("does not parse") from e
    b = ahb.cond_tree_binary(tree)

    def conv(n):
        if n[0] == "leaf":
            if n[1] != "key" or not (901 <= int(n[2]) <= 999):
                raise ValueError(f"leaf {n} is not a format-constraint key")
            return ("fc", abst(int(n[2])))
        if n[0] not in ("and", "or", "xor"):
            raise ValueError(f"operator {n[0]} not allowed")
        return (n[0], conv(n[1]), conv(n[2]))

    return conv(b)


async def eval_real(expr, asg, fc=None, hint_keys=()):
    """-> dict(err=None|'invalid'|'unsupported'|'exception:..', outcome, fc_expr, hints)"""
    import ahb
    from ahbicht.expressions import InvalidExpressionError
    from ahbicht.expressions.requirement_constraint_expression_evaluation import requirement_constraint_evaluation
    ahb.set_cer_values(rc={conc(k): v for k, v in asg.items()}, fc={conc(k): v for k, v in (fc if fc is not None else {k: True for k in FC_KEYS_POOL}).items()},
                       hints={conc(k): ahb.hint_text(k) for k in HINT_KEYS_POOL}, inplace=True)
    if isinstance(expr, str) and hash(expr) % 8 == 1 and asg:
        # fault history (one expression in eight): the same task evaluated the expression before under ANOTHER assignment together with a key nobody can
        # evaluate - that evaluation fails (not judged); nothing of it may be left behind for the judged one
        flip = {"F": "U", "U": "K", "K": "F"}
        ahb.set_cer_values(rc={conc(k): flip[v] for k, v in asg.items()}, fc={conc(k): not v for k, v in (fc if fc is not None else {k: True for k in FC_KEYS_POOL}).items()},
                           hints={conc(k): ahb.hint_text(k) for k in HINT_KEYS_POOL}, inplace=True)
        for failing in (f"({expr}) U [488]", f"({expr}) U [988]"):
            try:
                await requirement_constraint_evaluation(failing)
            except BaseException:  # noqa: BLE001 - not judged
                pass
        ahb.set_cer_values(rc={conc(k): v for k, v in asg.items()}, fc={conc(k): v for k, v in (fc if fc is not None else {k: True for k in FC_KEYS_POOL}).items()},
                           hints={conc(k): ahb.hint_text(k) for k in HINT_KEYS_POOL}, inplace=True)
    if isinstance(expr, str) and hash(expr) % 8 == 0:
        # fault history (one expression in eight): refused near misses of the same string were handled before
        from common import near_misses
        for nm in near_misses(expr):
            try:
                await requirement_constraint_evaluation(nm)
            except BaseException:  # noqa: BLE001 - not judged here
                pass
    try:
        r = await requirement_constraint_evaluation(expr)
    except InvalidExpressionError:
        return {"err": "invalid"}
    except NotImplementedError:
        return {"err": "unsupported"}
    except SyntaxError as e:
        return {"err": "exception:SyntaxError"}
    except Exception as e:  # pylint:disable=broad-except
        return {"err": "exception:" + type(e).__name__}
    return {"err": None, "outcome": (B2S[r.requirement_constraints_fulfilled], B2S[r.requirement_is_conditional]),
            "fc_expr": r.format_constraints_expression,
            "hints": tuple(int(k) for k in re.findall(r"H(\d+)", r.hints or "")), "hint_text": r.hints}


def tree_entry_point(expr, asg):
    """evaluate_requirement_constraint_tree on hand-built condition nodes -> 'F'/'U'/'K'/'N' or an error name"""
    import ahb
    from ahbicht.expressions import InvalidExpressionError
    from ahbicht.expressions.condition_expression_parser import parse_condition_expression_to_tree
    from ahbicht.expressions.requirement_constraint_expression_evaluation import evaluate_requirement_constraint_tree
    from ahbicht.models.condition_nodes import Hint, RequirementConstraint, UnevaluatedFormatConstraint
    nodes = {}
    for k, v in asg.items():
        nodes[str(conc(k))] = RequirementConstraint(condition_key=str(conc(k)), conditions_fulfilled=ahb.ST[v])
    for k in HINT_KEYS_POOL:
        nodes[str(conc(k))] = Hint(condition_key=str(conc(k)), hint=ahb.hint_text(k))
    for k in FC_KEYS_POOL:
        nodes[str(conc(k))] = UnevaluatedFormatConstraint(condition_key=str(conc(k)))
    tree = parse_condition_expression_to_tree(expr)
    # the SAME tree object is first evaluated under a different assignment: evaluation must not leave anything behind in the caller's tree
    other = dict(nodes)
    for k, v in asg.items():
        other[str(conc(k))] = RequirementConstraint(condition_key=str(conc(k)), conditions_fulfilled=ahb.ST[{"F": "U", "U": "K", "K": "F"}[v]])
    try:
        evaluate_requirement_constraint_tree(tree, other)
    except (InvalidExpressionError, NotImplementedError):
        pass
    try:
        r = evaluate_requirement_constraint_tree(tree, nodes)
    except InvalidExpressionError:
        return "invalid"
    except NotImplementedError:
        return "unsupported"
    return ahb.ST_INV[r.conditions_fulfilled]


async def fc_eval_real(expr, b):
    import ahb
    from ahbicht.expressions.format_constraint_expression_evaluation import format_constraint_evaluation
    if isinstance(expr, str) and hash((expr, tuple(sorted(b.items())))) % 6 == 0:
        # fault history: the same task evaluated the expression before under the opposite verdicts together with a key nobody can evaluate (fails, not judged)
        ahb.set_cer_values(rc={}, fc={conc(k): not v for k, v in b.items()}, hints={})
        try:
            await format_constraint_evaluation(f"({expr}) U [988]")
        except BaseException:  # noqa: BLE001 - not judged
            pass
    ahb.set_cer_values(rc={}, fc={conc(k): v for k, v in b.items()}, hints={})
    r = await format_constraint_evaluation(expr)
    return r.format_constraints_fulfilled, r.error_message


# ------------------------------------------------------------------ worker: replay a shard of the dump
class Acc:
    def __init__(self):
        self.viol = []
        self.samples = []
        self.counts = {}
        self.distinct = set()

    def count(self, k, n=1):
        self.counts[k] = self.counts.get(k, 0) + n

    def v(self, desc, case):
        if len(self.viol) < 50:
            self.viol.append((desc, case))
        self.count("violations")


def _h(x):
    import hashlib
    return hashlib.blake2b(repr(x).encode(), digest_size=8).digest()


def relevant(state):
    """complete programs: one evaluated tree, or an error raised by the last callback with nothing else pending"""
    if state["err"] == "nil":
        return len(state["stack"]) == 1
    return len(state["trees"]) == 1


async def check_state(mode, state, idx, acc, sd):
    tree = state["trees"][0]
    asg = asg_of(state)
    err = None if state["err"] == "nil" else state["err"]
    rng = random.Random(sd * 1000003 + idx)
    set_keymap(rng if rng.random() < 0.5 else None)
    expr = render(tree, rng)
    case = {"expr": expr, "tree": tree, "asg": asg, "spec_err": err, "keymap": dict(_KM)}
    got = await eval_real(expr, asg)
    acc.count("evaluations")
    nontrivial = not is_leaf(tree)
    if nontrivial:
        acc.distinct.add(_h((tree, tuple(sorted(asg.items())))))
    if got["err"] and got["err"].startswith("exception"):
        acc.v(f"{expr} with {asg}: unexpected {got['err']}", case)
        return
    if mode in ("C04", "C06", "C07", "C05"):
        if got["err"] != err:
            if mode in ("C04", "C06") or err is None or got["err"] is None:
                if mode == "C06" or err != "unsupported":
                    acc.v(f"{expr} with {asg}: code {'raises ' + got['err'] if got['err'] else 'evaluates'}, "
                          f"documented semantics says {'error ' + err if err else 'valid'}", case)
            return
    if mode == "C06" and err != "unsupported":
        await check_validity_entry_points(expr, tree, asg, err, acc, case, rng)
    if err is not None:
        if len(acc.samples) < 2 and err == "invalid":
            acc.samples.append({"expr": expr, "asg": asg, "spec": "invalid", "code": got["err"]})
        return
    top = state["stack"][0]
    if mode == "C04":
        # the tree entry point: evaluate_requirement_constraint_tree(parsed tree, nodes) must give the spec's four-valued state
        tv = tree_entry_point(expr, asg)
        acc.count("tree_entry_point_evaluations")
        if tv != top["st"]:
            acc.v(f"evaluate_requirement_constraint_tree('{expr}') with {asg} has state {tv}, compositional semantics gives {top['st']}", dict(case, expected_state=top["st"]))
        exp = OUTCOME[top["st"]]
        if got["outcome"] != exp:
            acc.v(f"{expr} with {asg}: code reports (fulfilled, conditional)={got['outcome']}, compositional semantics "
                  f"gives {top['st']} = {exp}", dict(case, expected=exp, got=got["outcome"]))
        if nontrivial and rng.random() < 0.35:
            # end to end: the same tree written with packages, resolved (C10's substitution) and evaluated as an AHB expression
            pr, pexpr, pk = await package_route(tree, asg, rng)
            if pr is not None:
                acc.count("package_route_evaluations")
                if pr != exp:
                    acc.v(f"'Muss {pexpr}' with packages {pk} and {asg}: resolving and evaluating gives {pr}, the expression the packages abbreviate ({expr}) "
                          f"has {top['st']} = {exp}", dict(case, package_expr=pexpr, packages=pk, expected=exp, got=pr))
        if len(acc.samples) < 3 and nontrivial:
            acc.samples.append({"expr": expr, "asg": asg, "spec_state": top["st"], "spec_outcome": exp, "code_outcome": got["outcome"]})
        if got["hints"] != tuple(top["hint"]):
            acc.count("hint_differences_not_judged")
    elif mode == "C07":
        case["spec_fcx"] = top["fcx"]
        await check_fcx(expr, asg, tree, top["fcx"], got, acc, case)
    elif mode == "C05":
        await check_laws(expr, asg, tree, top, got, acc, case, rng)


async def check_fcx(expr, asg, tree, fcx, got, acc, case):
    real = got["fc_expr"]
    if fcx == ():
        if real:
            acc.v(f"{expr} with {asg}: code collected format constraints '{real}', the direct reading contributes none", case)
        return
    if not real:
        acc.v(f"{expr} with {asg}: code collected no format constraints, the direct reading gives {fcx}", case)
        return
    try:
        ast = real_fc_ast(real)
    except ValueError as e:
        acc.v(f"{expr} with {asg}: collected expression '{real}' is not a well-formed FC expression ({e})", case)
        return
    if not fcx_keys(ast) <= keys_of(tree, "fc"):
        acc.v(f"{expr}: collected expression '{real}' mentions keys that are not format constraints of the source", case)
        return
    if ast != fcx:
        acc.count("fc_structure_differences_meaning_checked")
    keys = sorted(fcx_keys(fcx) | fcx_keys(ast))
    for vals in itertools.product([True, False], repeat=len(keys)):
        b = dict(zip(keys, vals))
        exp = fcx_val(fcx, b)
        if fcx_val(ast, b) != exp:
            acc.v(f"{expr} with {asg}: collected '{real}' has value {fcx_val(ast, b)} under {b}, direct reading gives {exp}",
                  dict(case, fc=b))
            return
        try:
            ok, msg = await fc_eval_real(real, b)
        except BaseException as e:  # pylint:disable=broad-except
            acc.v(f"{expr} with {asg}: format_constraint_evaluation('{real}') raised {type(e).__name__}", dict(case, fc=b))
            return
        acc.count("fc_evaluations")
        if ok != exp:
            acc.v(f"{expr} with {asg}: format_constraint_evaluation('{real}') = {ok} under {b}, direct reading gives {exp}",
                  dict(case, fc=b))
            return
    if len(acc.samples) < 3 and not is_leaf(tree):
        acc.samples.append({"expr": expr, "asg": asg, "spec_fcx": fcx, "code_fc_expression": real})


async def check_validity_entry_points(expr, tree, asg, err, acc, case, rng):
    """C06 at the other two entry points: evaluate_ahb_expression_tree (the expression as the only part and as the
    second of two modal-mark parts, under this assignment) and is_valid_expression (once per tree)."""
    import ahb
    from ahbicht.content_evaluation import is_valid_expression
    from ahbicht.expressions import InvalidExpressionError
    from ahbicht.expressions.ahb_expression_evaluation import evaluate_ahb_expression_tree
    from ahbicht.expressions.expression_resolver import parse_expression_including_unresolved_subexpressions
    mark = rng.choice(["Muss", "M", "Soll", "s", "Kann", "k", "X", "u"])
    variants = [f"{mark} {expr}"]
    if mark not in ("X", "u"):
        variants.append(f"Muss [{conc(2)}] {mark} {expr}")       # [2] takes every state over the enumerated assignments
        variants.append(f"{mark} {expr} Kann [{conc(1)}]")
    for ahb_expr in variants:
        ahb.set_cer_values(rc={conc(k): v for k, v in asg.items()}, fc={conc(k): True for k in FC_KEYS_POOL}, hints={conc(k): ahb.hint_text(k) for k in HINT_KEYS_POOL})
        try:
            t = await parse_expression_including_unresolved_subexpressions(ahb_expr)
            await evaluate_ahb_expression_tree(t)
            got = None
        except InvalidExpressionError:
            got = "invalid"
        except NotImplementedError:
            got = "unsupported"
        acc.count("ahb_evaluations")
        if got != err:
            acc.v(f"evaluate_ahb_expression_tree('{ahb_expr}') with {asg}: code {'raises ' + got if got else 'evaluates'}, "
                  f"structural validity says {'invalid' if err else 'valid'}", dict(case, ahb=ahb_expr))
    if all(v == "F" for v in asg.values()):      # once per tree
        for ahb_expr in variants[:2]:
            if rng.random() < 0.3:
                # fault history: refused near misses of the same string were asked before (their own verdicts are C02's business)
                from common import near_misses
                for nm in near_misses(ahb_expr):
                    try:
                        await is_valid_expression(nm, ahb.set_cer)
                    except BaseException:  # pylint:disable=broad-except  # noqa: BLE001 - not judged here
                        pass
                acc.count("validity_verdicts_after_refused_near_misses")
            try:
                verdict = await is_valid_expression(ahb_expr, ahb.set_cer)
            except BaseException as e:  # pylint:disable=broad-except
                acc.v(f"is_valid_expression('{ahb_expr}') raised {type(e).__name__}", dict(case, ahb=ahb_expr))
                continue
            acc.count("validity_checks")
            ok = (verdict == (True, None)) if err is None else (verdict[0] is False and bool(verdict[1]))
            if not ok:
                acc.v(f"is_valid_expression('{ahb_expr}') = {verdict}, structural validity says {'invalid' if err else 'valid'}",
                      dict(case, ahb=ahb_expr))
            elif len(acc.samples) < 4 and err == "invalid":
                acc.samples.append({"ahb_expression": ahb_expr, "spec": "invalid", "is_valid_expression": [verdict[0], (verdict[1] or "")[:60]]})


def law_instances(tree):
    """(name, transformed tree) exactly as the positions quantified over in Eval.tla (LawHintAnd, LawAttachFc, LawSwap)"""
    out = []
    for p in paths(tree):
        s = sub(tree, p)
        if p == () or sub(tree, p[:-1])[0] in ("and", "or", "xor"):
            for h in (503,):
                hl = ("leaf", "hint", h)
                out.append(("hint-and", repl(tree, p, ("and", s, hl))))
                out.append(("hint-and", repl(tree, p, ("and", hl, s))))
        if has_rc(s):
            fl = ("leaf", "fc", 903)
            out.append(("attach-fc", repl(tree, p, ("then", s, fl))))
            out.append(("attach-fc", repl(tree, p, ("then", fl, s))))
        if s[0] in ("and", "or", "xor"):
            out.append(("swap", repl(tree, p, (s[0], s[2], s[1]))))
    return out


async def check_laws(expr, asg, tree, top, got, acc, case, rng):
    base = got["outcome"]
    if base != OUTCOME[top["st"]]:
        acc.v(f"{expr} with {asg}: outcome {base} differs from the documented semantics {OUTCOME[top['st']]}", case)
        return
    def reused_tree(e):
        """the tree entry point on a parsed tree that was evaluated before under another assignment (trees are inputs, too: callers parse once and evaluate
        the tree for every message) -> (fulfilled, conditional) or the error"""
        try:
            tv = tree_entry_point(e, asg)
        except BaseException as ex:  # pylint:disable=broad-except  # noqa: BLE001
            return f"exception:{type(ex).__name__}"
        return OUTCOME.get(tv, tv)

    o0 = reused_tree(expr)
    acc.count("reused_tree_evaluations")
    if o0 != base:
        acc.v(f"'{expr}' -> {base} from the string, but {o0} when its parsed tree is evaluated a second time (first under another assignment; assignment {asg})",
              dict(case, law="reused-tree"))
        return
    for name, t2 in law_instances(tree):
        e2 = render(t2, rng)
        g2 = await eval_real(e2, asg)
        acc.count("law_pairs")
        if rng.random() < 0.2:
            o2 = reused_tree(e2)
            acc.count("reused_tree_evaluations")
            if o2 != base:
                acc.v(f"{name}: '{expr}' -> {base} but the parsed tree of '{e2}', evaluated a second time (first under another assignment), -> {o2} (assignment {asg})",
                      dict(case, law=name, transformed=e2))
                continue
        acc.distinct.add(_h((name, t2, tuple(sorted(asg.items())))))
        if g2["err"] is not None:
            acc.v(f"{name}: '{expr}' is valid but the transformed '{e2}' raises {g2['err']} (assignment {asg})",
                  dict(case, law=name, transformed=e2))
        elif g2["outcome"] != base:
            acc.v(f"{name}: '{expr}' -> {base} but '{e2}' -> {g2['outcome']} (assignment {asg})",
                  dict(case, law=name, transformed=e2))
        elif len(acc.samples) < 4 and rng.random() < 0.02:
            acc.samples.append({"law": name, "original": expr, "transformed": e2, "asg": asg, "outcome": base})
    # redundant brackets: the fully bracketed rendering against (a) doubled outer brackets and (b) the rendering that
    # relies on the documented precedence and has no redundant brackets at all
    for e3 in ("((" + expr + "))", render_minimal(tree, rng)):
        g3 = await eval_real(e3, asg)
        acc.count("law_pairs")
        if g3["err"] is not None or g3["outcome"] != base:
            acc.v(f"brackets: '{expr}' -> {base} but '{e3}' -> {g3.get('outcome', g3['err'])} (assignment {asg})",
                  dict(case, law="brackets", transformed=e3))
    # definite outcome with UNKNOWN inputs is stable under every refinement
    ks = [k for k, v in asg.items() if v == "K"]
    if ks and base != ("none", "none"):
        for vals in itertools.product("FU", repeat=len(ks)):
            a2 = dict(asg)
            a2.update(dict(zip(ks, vals)))
            g4 = await eval_real(expr, a2)
            acc.count("law_pairs")
            if g4["err"] is not None or g4["outcome"] != base:
                acc.v(f"definite-is-stable: '{expr}' -> {base} under {asg} but {g4.get('outcome', g4['err'])} under the refinement {a2}",
                      dict(case, law="refine", refined=a2))


def render_htx(x):
    """hint wording AST of Eval.tla -> the text HintExpressionBuilder produces from the hint texts H<key>"""
    import ahb
    if x[0] == "none":
        return None
    if x[0] == "h":
        return ahb.hint_text(x[1])
    l, r = render_htx(x[1]), render_htx(x[2])
    return {"und": f"{l} und {r}", "oder": f"{l} oder {r}", "entweder": f"Entweder ({l}) oder ({r})"}[x[0]]


def _hint_worker(args):
    dump, shard, nshards, sd = args
    import ahb
    ahb.configure()
    out = {"n": 0, "agree": 0, "dev": []}

    async def go():
        idx = -1
        for st in dump_states(dump, shard, nshards):
            idx += 1
            if not relevant(st) or st["err"] != "nil":
                continue
            set_keymap(None)
            tree = st["trees"][0]
            rng = random.Random(sd * 7919 + idx * nshards + shard)
            expr = render(tree, rng)
            got = await eval_real(expr, asg_of(st))
            if got["err"]:
                continue
            out["n"] += 1
            exp = render_htx(st["stack"][0]["htx"])
            if got["hint_text"] == exp:
                out["agree"] += 1
            elif len(out["dev"]) < 3:
                out["dev"].append({"expr": expr, "asg": asg_of(st), "specification": exp, "code": got["hint_text"]})

    asyncio.run(go())
    return out


def hint_wording_conformance(work: Work, max_leaves=3):
    """beyond the listed properties (./check-extras): the wording of the collected hints ("X und Y", "X oder Y", "Entweder (X) oder (Y)") as modelled
    by the htx field of Eval.tla's nodes against the real transformer, for every program up to max_leaves leaves over two hint keys"""
    cfg = write_cfg(work, "hints.cfg", max_leaves, False, ["TypeOK", "HintTextCarriesTheHints", "MachineAgreesWithDen"], rc=(1,), hints=(501, 502), fcs=(901,))
    dump = work.path("hints.dump")
    t = run_tlc("Eval", cfg, work, dump=dump)
    with mp.get_context("fork").Pool(16) as pool:
        outs = pool.map(_hint_worker, [(str(dump), i, 16, seed()) for i in range(16)])
    dump.unlink()
    dev = [d for o in outs for d in o["dev"]]
    return {"module": "Eval.tla (htx)", "states": t["states"], "evaluations": sum(o["n"] for o in outs), "agree": sum(o["agree"] for o in outs), "deviations": dev[:3]}


def _tuplify(x):
    return tuple(_tuplify(y) for y in x) if isinstance(x, (list, tuple)) else x


def _worker(args):
    mode, dump, shard, nshards, sd, stride = args
    import ahb
    ahb.configure()
    acc = Acc()

    async def go():
        idx = -1
        for st in dump_states(dump, shard, nshards):
            idx += 1
            if not relevant(st):
                continue
            if stride > 1 and (idx * nshards + shard + sd) % stride != 0:
                continue
            try:
                await check_state(mode, st, idx * nshards + shard, acc, sd)
            except Exception as e:  # a harness bug must not look like a violation
                raise MachineryError(f"harness exception on state {st}: {type(e).__name__}: {e}") from e

    asyncio.run(go())
    return acc.viol, acc.samples, acc.counts, acc.distinct


def replay_dump(mode, dump, res: Result, nproc=16, stride=1):
    sd = seed()
    with mp.get_context("fork").Pool(nproc) as pool:
        outs = pool.map(_worker, [(mode, str(dump), i, nproc, sd, stride) for i in range(nproc)])
    for viol, samples, counts, distinct in outs:
        for d, c in viol:
            res.violation(d, c)
        for s in samples:
            res.sample(s)
        for k, v in counts.items():
            if k != "violations":
                res.count(k, v)
        res.merge_distinct(distinct)
    res.coverage["traces_validated_against_impl"] += res.coverage.get("evaluations", 0) - res.coverage.get("_evals_before", 0)
    res.coverage["_evals_before"] = res.coverage.get("evaluations", 0)


def write_cfg(work: Work, name, max_leaves, laws, invariants, rc=(1, 2), hints=(501,), fcs=(901, 902)):
    p = work.path(name)
    p.write_text("CONSTANTS\n MaxLeaves = %d\n RcKeys = %s\n HintKeys = %s\n FcKeys = %s\n Laws = %s\nINIT Init\nNEXT Next\n%s\nCHECK_DEADLOCK FALSE\n"
                 % (max_leaves, to_tla(set(rc)), to_tla(set(hints)), to_tla(set(fcs)), "TRUE" if laws else "FALSE",
                    "\n".join("INVARIANT " + i for i in invariants)))
    return str(p)


# ------------------------------------------------------------------ code -> spec: recorded callbacks validated by TLC
def node_json(n):
    """real condition node -> the record Eval.tla uses"""
    import ahb
    from ahbicht.models.condition_nodes import EvaluatedComposition, Hint, RequirementConstraint, UnevaluatedFormatConstraint
    st = ahb.ST_INV[n.conditions_fulfilled]
    if isinstance(n, RequirementConstraint):
        return {"st": st, "kind": "rc", "fcx": [], "hint": []}
    if isinstance(n, Hint):
        return {"st": st, "kind": "hint", "fcx": [], "hint": [int(k) for k in re.findall(r"H(\d+)", n.hint or "")]}
    if isinstance(n, UnevaluatedFormatConstraint):
        return {"st": st, "kind": "fc", "fcx": ["fc", int(n.condition_key)], "hint": []}
    if isinstance(n, EvaluatedComposition):
        fx = []
        if n.format_constraints_expression:
            try:
                fx = _to_list(real_fc_ast(n.format_constraints_expression))
            except ValueError:
                fx = ["malformed", n.format_constraints_expression]
        return {"st": st, "kind": "comp", "fcx": fx, "hint": [int(k) for k in re.findall(r"H(\d+)", n.hint or "")]}
    return {"st": st, "kind": type(n).__name__, "fcx": [], "hint": []}


def _to_list(x):
    return [_to_list(y) if isinstance(y, tuple) else y for y in x]


def install_tracer(sink):
    """Rebinds the transformer class the production function looks up at call time to a tracing subclass.
    Events are appended to sink AFTER the real callback returned or raised."""
    import ahbicht.expressions.requirement_constraint_expression_evaluation as mod
    from ahbicht.expressions import InvalidExpressionError
    from lark import v_args
    base = getattr(mod, "_verif_original_transformer", None) or mod.RequirementConstraintTransformer
    mod._verif_original_transformer = base

    @v_args(inline=True)
    class Tracing(base):
        def condition(self, token):
            r = super().condition(token)
            j = node_json(r)
            sink.append({"op": "leaf", "kind": j["kind"], "key": int(token.value), "res": j})
            return r

        def _bin(self, op, fn, *args):
            if len(args) != 2:          # a refactored transformer with n-ary callbacks: not comparable step by step, the run is skipped
                sink.append({"op": "skip"})
                return fn(*args)
            left, right = args
            ev = {"op": op, "l": node_json(left), "r": node_json(right)}
            try:
                r = fn(left, right)
            except InvalidExpressionError:
                ev["err"] = "invalid"
                sink.append(ev)
                raise
            except NotImplementedError:
                ev["err"] = "unsupported"
                sink.append(ev)
                raise
            ev["res"] = node_json(r)
            sink.append(ev)
            return r

        def and_composition(self, *args):
            return self._bin("and", super().and_composition, *args)

        def or_composition(self, *args):
            return self._bin("or", super().or_composition, *args)

        def xor_composition(self, *args):
            return self._bin("xor", super().xor_composition, *args)

        def then_also_composition(self, *args):
            return self._bin("then", super().then_also_composition, *args)

    mod.RequirementConstraintTransformer = Tracing
    return mod


def uninstall_tracer():
    import ahbicht.expressions.requirement_constraint_expression_evaluation as mod
    if getattr(mod, "_verif_original_transformer", None) is not None:
        mod.RequirementConstraintTransformer = mod._verif_original_transformer


_LIT = re.compile(r"""["']([^"'\n]*\[\d+\][^"'\n]*)["']""")


def harvest_unittest_expressions():
    """condition expressions (no packages / time conditions / modal marks) found as string literals in /repo/unittests"""
    from common import REPO
    out = set()
    for f in sorted((REPO / "unittests").glob("*.py")):
        for m in _LIT.finditer(f.read_text(errors="replace")):
            s = m.group(1).strip()
            if re.fullmatch(r"[\[\]()\dUOXuox∧∨⊻\s]+", s) and "[" in s:
                out.add(s)
    return sorted(out)


def random_tree(rng, leaves, rc_keys, hint_keys, fc_keys):
    """random in-domain abstract tree with the given number of leaves"""
    if leaves == 1:
        k = rng.random()
        if k < 0.6:
            return ("leaf", "rc", rng.choice(rc_keys))
        if k < 0.8:
            return ("leaf", "hint", rng.choice(hint_keys))
        return ("leaf", "fc", rng.choice(fc_keys))
    if leaves >= 2 and rng.random() < 0.2:
        other = random_tree(rng, leaves - 1, rc_keys, hint_keys, fc_keys)
        fc = ("leaf", "fc", rng.choice(fc_keys))
        if (is_leaf(other) and other[1] == "hint") or has_rc(other) or rng.random() < 0.1:
            return ("then", other, fc) if rng.random() < 0.7 else ("then", fc, other)
    k = rng.randint(1, leaves - 1)
    op = rng.choice(["and", "and", "or", "xor"])
    return (op, random_tree(rng, k, rc_keys, hint_keys, fc_keys), random_tree(rng, leaves - k, rc_keys, hint_keys, fc_keys))


def in_generator_domain(events):
    """Eval.tla only builds juxtapositions with at least one single-FC side"""
    if any(e["op"] == "skip" for e in events):
        return False
    return all(e["op"] != "then" or e["l"]["kind"] == "fc" or e["r"]["kind"] == "fc" for e in events)


def record_runs(exprs_with_asg):
    """-> list of traces (dict id/asg/events/expr) recorded from the real transformer"""
    import ahb
    set_keymap(None)
    ahb.configure()
    from ahbicht.expressions import InvalidExpressionError
    from ahbicht.expressions.requirement_constraint_expression_evaluation import requirement_constraint_evaluation
    sink = []
    try:
        install_tracer(sink)
    except Exception:  # pylint:disable=broad-except
        # the transformer is no longer a class that can be subclassed and rebound (a refactoring): recording is not possible, nothing is claimed
        return []
    traces = []

    async def go():
        tid = 0
        for expr, asg in exprs_with_asg:
            del sink[:]
            ahb.set_cer_values(rc=asg, fc={k: True for k in range(901, 1000)}, hints={k: ahb.hint_text(k) for k in range(500, 901)})
            try:
                await requirement_constraint_evaluation(expr)
            except (InvalidExpressionError, NotImplementedError):
                pass
            except (SyntaxError, ValueError, KeyError):
                continue  # harvested literal that is not a well-formed condition expression over known key ranges
            except Exception as e:  # noqa: BLE001 - total: any other exception is part of the recorded behaviour (no step of the machine explains it)
                sink.append({"op": "raised", "err": f"exception:{type(e).__name__}"})
            tid += 1
            traces.append({"id": tid, "asg": [[int(k), v] for k, v in sorted(asg.items())], "events": list(sink), "expr": expr})

    try:
        asyncio.run(go())
    finally:
        uninstall_tracer()
    return traces


def report_stepwise_rejections(res: Result, work: Work, rejected, diag, tag="evalresult"):
    """a run whose callbacks are no behaviour of the machine is a VIOLATION only if its result contradicts the specification as well (the properties fix
    results, not how an implementation arrives at them); otherwise it is recorded as a structural divergence of the implementation"""
    if not rejected:
        return
    cases = [(t["expr"], {int(k): v for k, v in t["asg"]}) for t in rejected]
    t3, bad = result_level_decision(work, cases, tag=tag)
    res.add_tlc(f"EvalResultTrace: {len(rejected)} runs whose callbacks the machine does not reproduce, decided on their results", t3)
    bad_idx = {i: (final, exp) for i, final, exp in bad}
    res.coverage["runs_with_other_callback_structure_but_correct_result"] = res.coverage.get("runs_with_other_callback_structure_but_correct_result", 0) + len(rejected) - len(bad)
    for i, t in enumerate(rejected):
        at, exp = diag.get(t["id"], (0, ()))
        ev = t["events"][at - 1] if 0 < at <= len(t["events"]) else None
        if i in bad_idx:
            res.violation(f"recorded evaluation of '{t['expr']}' is not a behaviour of Eval.tla: event {at} {ev}; the spec computes {exp}; and its result "
                          f"{bad_idx[i][0]} contradicts the documented semantics {bad_idx[i][1]}",
                          {"kind": "trace", "expr": t["expr"], "asg": dict(map(tuple, t["asg"])), "event_index": at, "event": ev})
        elif len(res.coverage.setdefault("callback_structure_divergences", [])) < 3:
            res.coverage["callback_structure_divergences"].append({"expr": t["expr"], "event_index": at, "event": ev, "machine": str(exp)[:300]})


def eval_tree_of(expr):
    """condition expression -> syntax tree in Eval.tla's form (lists), via the real parser; kinds by key range"""
    import ahb
    from ahbicht.expressions.condition_expression_parser import parse_condition_expression_to_tree

    def conv(n):
        if n[0] == "leaf":
            k = int(n[2])
            kind = "rc" if (1 <= k <= 499 or 2000 <= k <= 2499) else "hint" if 500 <= k <= 900 else "fc"
            return ["leaf", kind, k]
        return [n[0], conv(n[1]), conv(n[2])]

    return conv(ahb.cond_tree_binary(parse_condition_expression_to_tree(expr)))


_OUTCOME_INV = {v: k for k, v in OUTCOME.items()}


def result_level_decision(work: Work, cases, tag="evalresult"):
    """second level of the trace validation: runs whose recorded callbacks are no behaviour of Eval.tla's machine are evaluated once more WITHOUT the
    recording subclass and decided by TLC on their results (EvalResultTrace.tla). cases: [(expr, asg)] -> (tlc result, [(index, expected)] of the
    runs whose RESULT contradicts the specification)"""
    import ahb
    from ahbicht.expressions import InvalidExpressionError
    from ahbicht.expressions.requirement_constraint_expression_evaluation import requirement_constraint_evaluation
    traces = []

    async def go():
        for i, (expr, asg) in enumerate(cases, start=1):
            ahb.set_cer_values(rc=asg, fc={k: True for k in range(901, 1000)}, hints={k: ahb.hint_text(k) for k in range(500, 901)})
            final = {"err": "nil", "st": "-", "fcx": []}
            try:
                r = await requirement_constraint_evaluation(expr)
                final["st"] = _OUTCOME_INV.get((B2S[r.requirement_constraints_fulfilled], B2S[r.requirement_is_conditional]), "?")
                if r.format_constraints_expression:
                    try:
                        final["fcx"] = _to_list(real_fc_ast(r.format_constraints_expression))
                    except ValueError:
                        final["fcx"] = ["malformed", r.format_constraints_expression]
            except InvalidExpressionError:
                final["err"] = "invalid"
            except NotImplementedError:
                final["err"] = "unsupported"
            except Exception as e:  # noqa: BLE001 - total
                final["err"] = f"exception:{type(e).__name__}"
            tree = eval_tree_of(expr)

            def rc_keys(n):
                return ({n[2]} if n[1] == "rc" else set()) if n[0] == "leaf" else rc_keys(n[1]) | rc_keys(n[2])

            keys = sorted(rc_keys(tree))
            traces.append({"id": i, "asg": [[k, asg.get(k, asg.get(str(k), "U"))] for k in keys], "tree": tree, "final": final})

    set_keymap(None)
    asyncio.run(go())
    t2, acc, diag = validate_traces("EvalResultTrace", "EvalResultTrace.cfg", traces, work, tag=tag)
    return t2, [(t["id"] - 1, t["final"], diag.get(t["id"], (0, ()))[1]) for t in traces if t["id"] not in acc]


def random_fc_dense_tree(rng, operands, rc_keys, fc_keys):
    """random tree whose operands are requirement constraints with an attached format constraint ([k][9xx]) - every composition is valid and most
    operands contribute a format constraint, so the collected expression is as large as the source"""
    if operands == 1:
        rc = ("leaf", "rc", rng.choice(rc_keys))
        if rng.random() < 0.85:
            fc = ("leaf", "fc", rng.choice(fc_keys))
            return ("then", rc, fc) if rng.random() < 0.7 else ("then", fc, rc)
        return rc
    k = rng.randint(1, operands - 1)
    return (rng.choice(["and", "or", "xor"]), random_fc_dense_tree(rng, k, rc_keys, fc_keys), random_fc_dense_tree(rng, operands - k, rc_keys, fc_keys))


def deep_fc_results(res: Result, work: Work, n, max_operands=9):
    """results of the real evaluation of random expressions with up to max_operands [k][9xx] operands (fully bracketed and with minimal brackets), decided
    by TLC on the level of results (EvalResultTrace: state = Den, collected format constraints well-formed with the meaning FcRead under every truth assignment)"""
    import ahb
    ahb.configure()
    set_keymap(None)
    rng = random.Random(seed() * 9341 + 7)
    rc_keys, fc_keys = [1, 2, 3, 4], [901, 902, 903, 904, 905, 906]
    cases = []
    for _ in range(n):
        t = random_fc_dense_tree(rng, rng.randint(3, max_operands), rc_keys, fc_keys)
        expr = render(t, rng) if rng.random() < 0.5 else render_minimal(t, rng)
        asg = {k: rng.choice("FFFFUK") for k in rc_keys}
        cases.append((expr, asg))
    t3, bad = result_level_decision(work, cases, tag="deepfc")
    res.add_tlc(f"EvalResultTrace: results of {len(cases)} random expressions with 3..{max_operands} operands carrying format constraints, decided on Den / FcRead", t3)
    res.count("traces_validated_against_impl", len(cases))
    res.count("evaluations", len(cases))
    for i, final, exp in bad:
        expr, asg = cases[i]
        res.violation(f"'{expr}' with {asg}: the evaluation gives {final}; the documented semantics gives {exp} and a collected format-constraint expression with the "
                      "meaning of the direct reading under every truth assignment", {"kind": "deep-fc", "expr": expr, "asg": asg})
    for expr, asg in cases:
        res.distinct(("deepfc", expr, tuple(sorted(asg.items()))), nontrivial=True)


def trace_validation(res: Result, work: Work, n_random=600, max_leaves=25):
    import ahb
    rng = random.Random(seed() * 7919 + 17)
    cases = []
    lits = harvest_unittest_expressions()
    for s in lits:
        keys = sorted({int(k) for k in re.findall(r"\[(\d+)\]", s)})
        rck = [k for k in keys if 1 <= k <= 499 or 2000 <= k <= 2499]
        if any(not (1 <= k <= 999 or 2000 <= k <= 2499) for k in keys):
            continue
        for _ in range(3):
            cases.append((s, {k: rng.choice("FUK") for k in rck}))
    rc_keys, hint_keys, fc_keys = list(range(1, 9)), [501, 502, 503, 700], [901, 902, 903, 950]
    for _ in range(n_random):
        t = random_tree(rng, rng.randint(2, max_leaves), rc_keys, hint_keys, fc_keys)
        cases.append((render(t, rng), {k: rng.choice("FUK") for k in rc_keys}))
    traces = record_runs(cases)
    usable = [t for t in traces if t["events"] and in_generator_domain(t["events"])]
    res.coverage["traces_recorded"] = len(traces)
    if not usable:
        res.coverage["callback_tracing"] = "not available for this code (transformer callbacks could not be recorded)"
        return traces
    res.coverage["traces_outside_generator_domain_skipped"] = len(traces) - len(usable)
    res.coverage["unittest_literals_traced"] = len(lits)
    slim = [{"id": t["id"], "asg": t["asg"], "events": t["events"]} for t in usable]
    t2, acc, diag = validate_traces("EvalTrace", "EvalTrace.cfg", slim, work, tag="evaltrace")
    res.add_tlc("EvalTrace: recorded callbacks of the real transformer (unit-test literals + random deep expressions)", t2)
    res.count("traces_validated_against_impl", len(usable))
    stepwise_rejected = []
    for t in usable:
        res.distinct(("trace", t["expr"], tuple(map(tuple, t["asg"]))), nontrivial=len(t["events"]) > 1)
        if t["id"] not in acc:
            stepwise_rejected.append(t)
    report_stepwise_rejections(res, work, stepwise_rejected, diag)
    if usable:
        res.sample({"recorded_trace_of": usable[-1]["expr"], "events": len(usable[-1]["events"]), "last_event": usable[-1]["events"][-1]})
    return traces


# ------------------------------------------------------------------ trace validation of the repository's OWN test suite
def unit_test_suite_traces(res: Result, work: Work, which="rc"):
    """runs the repository's tests with the recording plugin and lets TLC validate every recorded transformer run"""
    import subprocess
    import sys
    from common import REPO, VERIF
    out = work.path("suite-traces.ndjson")
    env = dict(os.environ)
    env["VERIF_TRACE_OUT"] = str(out)
    env["PYTHONPATH"] = f"{REPO}/src:{VERIF}/harness"
    p = subprocess.run([sys.executable, "-m", "pytest", "-q", "-p", "no:cacheprovider", "-p", "verif_pytest_plugin", "--timeout=900",
                        "unittests"],
                       cwd=str(REPO), env=env, capture_output=True, text=True)
    res.coverage["repository_tests_run_under_tracing"] = (p.stdout.strip().splitlines() or ["?"])[-1]
    if not out.exists():
        return
    import json as _json
    rc_traces, fc_traces = [], []
    skipped = 0
    for line in open(out):
        t = _json.loads(line)
        if t["kind"] == "rc":
            ev = t["events"]
            asg = {}
            ok = in_generator_domain(ev)
            for e in ev:
                if e["op"] == "leaf" and e["kind"] == "rc":
                    if e["res"]["st"] == "N" or asg.get(e["key"], e["res"]["st"]) != e["res"]["st"]:
                        ok = False           # outside the quantifier of C04-C07: a requirement constraint that is NEUTRAL
                    asg[e["key"]] = e["res"]["st"]
                if e["op"] == "leaf" and e["kind"] not in ("rc", "hint", "fc"):
                    ok = False
            if ok and ev:
                rc_traces.append({"id": t["id"], "asg": [[k, v] for k, v in sorted(asg.items())] or [[0, "F"]], "events": ev})
            else:
                skipped += 1
        else:
            if all(e["op"] != "skip" and (e["op"] != "leaf" or e["res"]["has_msg"] == (not e["res"]["ok"])) for e in t["events"]):
                fc_traces.append({"id": t["id"], "events": t["events"]})
            else:
                skipped += 1
    res.coverage["suite_traces_outside_the_quantifier_skipped"] = skipped
    batch, module, cfg = (rc_traces, "EvalTrace", "EvalTrace.cfg") if which == "rc" else (fc_traces, "FcEvalTrace", "FcEvalTrace.cfg")
    if not batch:
        return
    t2, acc, diag = validate_traces(module, cfg, batch, work, tag="suite-" + which)
    res.add_tlc(f"{module}: every transformer run recorded while the repository's own tests executed ({len(batch)} runs)", t2)
    res.count("traces_validated_against_impl", len(batch))
    res.coverage["repository_test_runs_validated"] = len(batch)
    rejected = [t for t in batch if t["id"] not in acc]
    if not rejected:
        return
    # second level: decided on results (the expression is reconstructed from the recorded callbacks where they form a complete traversal)
    second, undecidable = [], 0
    for t in rejected:
        tree, final = reconstruct_from_events(t["events"], which)
        if tree is None:
            undecidable += 1
            continue
        if which == "rc":
            second.append({"id": t["id"], "asg": [p for p in t["asg"] if p[0] != 0], "tree": tree, "final": final})
        else:
            b = {e["key"]: e["res"]["ok"] for e in t["events"] if e["op"] == "leaf"}
            second.append({"id": t["id"], "b": [[k, v] for k, v in sorted(b.items())], "tree": tree, "final": final})
    res.coverage["suite_runs_with_other_callback_structure"] = len(rejected)
    res.coverage["suite_runs_not_reconstructible_from_callbacks"] = undecidable
    if not second:
        return
    m2 = "EvalResultTrace" if which == "rc" else "FcResultTrace"
    t3, acc3, diag3 = validate_traces(m2, m2 + ".cfg", second, work, tag="suite2-" + which)
    res.add_tlc(f"{m2}: {len(second)} recorded runs whose callbacks the machine does not reproduce, decided on their results", t3)
    for t in second:
        if t["id"] not in acc3:
            at, exp = diag.get(t["id"], (0, ()))
            res.violation(f"a transformer run recorded during the repository's tests is not a behaviour of {module} (event {at}; the spec computes {exp}) and its "
                          f"result {t['final']} contradicts the documented semantics {diag3.get(t['id'], (0, ()))[1]} for the expression {t['tree']}",
                          {"kind": "suite-trace", "tree": t["tree"], "final": t["final"]})


def reconstruct_from_events(events, which="rc"):
    """recorded callbacks -> (syntax tree, final result) if they form a complete post-order traversal (one callback per node, every composition on the
    results of earlier callbacks), else (None, None). An error raised by a composition: the tree is that composition (errors are structural)."""
    stack = []
    for e in events:
        if e["op"] == "skip":
            return None, None
        if e["op"] == "leaf":
            stack.append((["leaf", e.get("kind", "fc"), e["key"]], e["res"]))
            continue
        if len(stack) < 2 or e.get("l") != stack[-2][1] or e.get("r") != stack[-1][1]:
            return None, None
        (lt, _), (rt, _) = stack[-2], stack[-1]
        del stack[-2:]
        tree = [e["op"], lt, rt]
        if "err" in e:
            return tree, {"err": e["err"], "st": "-", "fcx": []}
        stack.append((tree, e["res"]))
    if len(stack) != 1:
        return None, None
    tree, r = stack[0]
    if which == "rc":
        return tree, {"err": "nil", "st": r["st"], "fcx": r["fcx"]}
    return tree, {"ok": r["ok"], "has_msg": r["has_msg"]}


# ------------------------------------------------------------------ spec -> code for deep random behaviours (tlc -simulate)
def expand_forest(st):
    """every evaluated tree on the machine's stack is a complete sub-expression with its evaluated node: one replayable state each"""
    out = []
    n = len(st["stack"])
    for i in range(n):
        out.append({"asg": st["asg"], "trees": (st["trees"][i],), "stack": (st["stack"][i],), "err": "nil", "prog": ()})
    if st["err"] != "nil" and len(st["trees"]) == n + 1:
        out.append({"asg": st["asg"], "trees": (st["trees"][n],), "stack": (), "err": st["err"], "prog": ()})
    return out


def replay_simulated(mode, res: Result, work: Work, num, depth=18, max_leaves=8):
    from common import simulate_final_states
    cfg = write_cfg(work, "sim.cfg", max_leaves, False, ["MachineAgreesWithDen", "ValidityIsStructural", "FcMeaning"], rc=(1, 2), hints=(501, 502), fcs=(901, 902))
    t, finals = simulate_final_states("Eval", cfg, work, num, depth, seed() + 1)
    res.add_tlc(f"Eval -simulate: {num} random behaviours to depth {depth} (<= {max_leaves} leaves), invariants checked along each", t)
    import ahb
    ahb.configure()
    acc = Acc()

    async def go():
        idx = 0
        for st in finals:
            for sub_state in expand_forest(st):
                idx += 1
                if is_leaf(sub_state["trees"][0]):
                    continue
                await check_state(mode, sub_state, 10 ** 6 + idx, acc, seed())

    asyncio.run(go())
    for d, c in acc.viol:
        res.violation(d, c)
    res.count("traces_validated_against_impl", acc.counts.get("evaluations", 0))
    res.count("evaluations", acc.counts.get("evaluations", 0))
    res.count("simulated_subexpressions_replayed", acc.counts.get("evaluations", 0))
    res.merge_distinct(acc.distinct)


# ------------------------------------------------------------------ C05 / C06 on random deep expressions
def deep_law_pairs(res: Result, n, max_leaves=10):
    """the metamorphic laws of C05 on random in-domain expressions with 5..max_leaves leaves (both members of each pair evaluated by the real code)"""
    import ahb
    ahb.configure()
    rng = random.Random(seed() * 439 + 5)
    acc = Acc()

    async def go():
        for i in range(n):
            set_keymap(rng if rng.random() < 0.5 else None)
            t = random_tree(rng, rng.randint(5, max_leaves), [1, 2], [501, 502], [901, 902])
            asg = {1: rng.choice("FUK"), 2: rng.choice("FUK")}
            expr = render(t, rng)
            got = await eval_real(expr, asg)
            if got["err"] is not None:
                continue
            top = {"st": {v: k for k, v in OUTCOME.items()}[got["outcome"]]}
            await check_laws(expr, asg, t, top, got, acc, {"expr": expr, "tree": t, "asg": asg, "keymap": dict(_KM)}, rng)

    asyncio.run(go())
    for d, c in acc.viol:
        res.violation(d, c)
    res.count("law_pairs", acc.counts.get("law_pairs", 0))
    res.count("deep_law_pairs", acc.counts.get("law_pairs", 0))
    res.merge_distinct(acc.distinct)


def deep_validity(res: Result, work: Work, n, max_leaves=10):
    """C06 on random deep expressions: the recorded runs are validated by TLC (the machine raises invalid iff the code does, event by event), and
    the validity check must agree with evaluation"""
    import ahb
    from ahbicht.content_evaluation import is_valid_expression
    traces = trace_validation(res, work, n_random=n, max_leaves=max_leaves)
    ahb.configure()
    rng = random.Random(seed() * 443 + 6)
    sample = [t for t in traces if t["events"] and in_generator_domain(t["events"]) and "unsupported" not in str(t["events"][-1].get("err"))]
    rng.shuffle(sample)

    async def go():
        for t in sample[:max(40, n // 10)]:
            invalid = t["events"][-1].get("err") == "invalid"
            try:
                verdict = await is_valid_expression("Muss " + t["expr"], ahb.set_cer)
            except BaseException as e:  # pylint:disable=broad-except
                res.violation(f"is_valid_expression('Muss {t['expr']}') raised {type(e).__name__}", {"kind": "deep-validity", "expr": t["expr"]})
                continue
            res.count("validity_checks")
            ok = (verdict[0] is False and bool(verdict[1])) if invalid else verdict == (True, None)
            if not ok:
                res.violation(f"is_valid_expression('Muss {t['expr']}') = {verdict}, evaluation {'raises the invalid-expression error' if invalid else 'does not raise'}",
                              {"kind": "deep-validity", "expr": t["expr"]})

    asyncio.run(go())
