"""C03 - four-valued condition logic: algebraic laws, README rows, soundness/tightness of UNKNOWN.
spec: Logic4.tla (laws as ASSUMEs, exhaustive), Logic4MC.tla (every application as a state),
Logic4Trace.tla (recorded applications of the real operators validated by TLC)."""
import itertools
import re

from common import REPO, Result, Work, dump_states, main_wrapper, run_tlc, validate_traces

PID = "C03"
V = ["F", "U", "K", "N"]
B = ["F", "U"]


def real_apply(ST, ST_INV, op, a, b):
    if a not in ST or b not in ST:      # the result of an application that already failed
        return "undefined"
    x, y = ST[a], ST[b]
    try:
        r = {"and": lambda: x & y, "or": lambda: x | y, "xor": lambda: x ^ y}[op]()
    except Exception as e:  # noqa: BLE001 - the operators are total on the four values: an exception is a (wrong) result, not a harness failure
        return f"raises {type(e).__name__}"
    if type(r) is not type(x):      # a plain string that merely compares equal to a value's name is not one of the four values (it has no operators)
        return f"{r!r} of type {type(r).__name__}"
    return ST_INV.get(r, repr(r))


def readme_rows():
    """Parses the three truth tables from README.rst as it is in the working tree."""
    txt = (REPO / "README.rst").read_text()
    start = txt.index("Truth tables")
    sec = txt[start:start + 6000]
    val = {"true": "F", "false": "U", "unknown": "K", "neutral": "N"}
    rows = []
    op = None
    for line in sec.splitlines():
        m = re.match(r"``(and|or|xor)_composition``", line.strip())
        if m:
            op = m.group(1)
            continue
        if "|" in line:
            cells = [c.strip().lower() for c in line.strip().strip("|").split("|") if c.strip()]
        else:
            cells = [c.lower() for c in line.split()]
        if op and len(cells) >= 3 and cells[0] in val and cells[1] in val and cells[2] in val:
            rows.append((op, val[cells[0]], val[cells[1]], val[cells[2]]))
    return rows


def run():
    res = Result(PID)
    work = Work(PID)
    import ahb
    ST, ST_INV = ahb.ST, ahb.ST_INV
    # 1. the spec: laws are ASSUMEs of Logic4 (TLC evaluates them before exploring); the machine enumerates all applications
    dump = work.path("logic4.dump")
    t = run_tlc("Logic4MC", "Logic4MC.cfg", work, workers=4, dump=dump)
    res.add_tlc("Logic4MC: 9 laws as ASSUME + every application as a state", t)
    # 1b. fault history: the operators were applied to foreign operands before (plain strings equal to the values' names, None, numbers); whatever those
    #     applications do (raise, return something) is not judged - the laws on the four values must hold afterwards as they do in a fresh process
    foreign = 0
    for x in list(ST.values()):
        for y in ([str(v.value) for v in ST.values()] + [str(v.name) for v in ST.values()] + [None, 0, 1, True, False, 2.5, (), object()]):
            for f in (lambda: x & y, lambda: y & x, lambda: x | y, lambda: y | x, lambda: x ^ y, lambda: y ^ x):
                foreign += 1
                try:
                    f()
                except BaseException:  # noqa: BLE001 - not judged
                    pass
    res.coverage["applications_to_foreign_operands_before_the_replay"] = foreign
    # 2. spec -> code: every state (op, a, b, r) replayed on the real enum operators
    n = 0
    for s in dump_states(dump):
        got = real_apply(ST, ST_INV, s["op"], s["a"], s["b"])
        n += 1
        res.distinct((s["op"], s["a"], s["b"]), nontrivial=True)
        if got != s["r"]:
            res.violation(f"{s['a']} {s['op']} {s['b']} = {got} in the code, the documented logic gives {s['r']}",
                          {"kind": "cell", "op": s["op"], "a": s["a"], "b": s["b"], "expected": s["r"], "got": got})
        res.sample({"op": s["op"], "a": s["a"], "b": s["b"], "spec": s["r"], "code": got}, limit=4)
    if n != 48:
        raise RuntimeError(f"expected 48 states in the dump, found {n}")
    res.count("traces_validated_against_impl", n)
    # 3. the laws re-evaluated directly on the real operators (pairs and triples)
    laws = 0
    ops = ["and", "or", "xor"]
    ra = lambda o, a, b: real_apply(ST, ST_INV, o, a, b)
    gamma = lambda v: B if v == "K" else [v]
    bop = {"and": lambda a, b: "F" if a == b == "F" else "U", "or": lambda a, b: "F" if "F" in (a, b) else "U",
           "xor": lambda a, b: "F" if a != b else "U"}
    for o in ops:
        for a, b in itertools.product(V, V):
            laws += 1
            r = ra(o, a, b)
            if r not in V:
                res.violation(f"{o}({a},{b}) is not one of the four values: {r}", {"kind": "total", "op": o, "a": a, "b": b})
                continue
            if r != ra(o, b, a):
                res.violation(f"{o} is not commutative on ({a},{b})", {"kind": "comm", "op": o, "a": a, "b": b})
            if a in B and b in B and r != bop[o](a, b):
                res.violation(f"{o}({a},{b}) differs from Boolean logic", {"kind": "bool", "op": o, "a": a, "b": b})
            if a != "N" and b != "N":
                conc = {bop[o](x, y) for x in gamma(a) for y in gamma(b)}
                if r in B and conc != {r}:
                    res.violation(f"UNKNOWN unsound: {o}({a},{b})={r} but refinements give {sorted(conc)}",
                                  {"kind": "sound", "op": o, "a": a, "b": b})
                if r == "K" and len(conc) < 2:
                    res.violation(f"UNKNOWN not tight: {o}({a},{b})=K but all refinements give {sorted(conc)}",
                                  {"kind": "tight", "op": o, "a": a, "b": b})
        for a in V:
            laws += 1
            if ra(o, a, "N") != a or ra(o, "N", a) != a:
                res.violation(f"NEUTRAL is not the identity of {o} for {a}", {"kind": "ident", "op": o, "a": a})
        for a, b, c in itertools.product(V, V, V):
            laws += 1
            if ra(o, ra(o, a, b), c) != ra(o, a, ra(o, b, c)):
                res.violation(f"{o} is not associative on ({a},{b},{c})", {"kind": "assoc", "op": o, "a": a, "b": b, "c": c})
    rows = readme_rows()
    if len(rows) < 15:
        raise RuntimeError(f"README truth tables not found as expected (parsed {len(rows)} rows)")
    for o, a, b, r in rows:
        laws += 1
        if ra(o, a, b) != r or ra(o, b, a) != r:
            res.violation(f"README row {a} {o} {b} = {r} but the code gives {ra(o, a, b)}/{ra(o, b, a)}",
                          {"kind": "readme", "op": o, "a": a, "b": b, "expected": r})
    res.count("evaluations", n + laws)
    res.coverage["law_instances_checked_on_code"] = laws
    res.coverage["readme_rows_parsed"] = len(rows)
    # 4. code -> spec: recorded applications (all pairs, and all nested triples as two-event runs) validated by TLC
    traces = []
    tid = 0
    for o in ops:
        for a, b in itertools.product(V, V):
            tid += 1
            traces.append({"id": tid, "events": [{"op": o, "a": a, "b": b, "r": ra(o, a, b)}]})
    for o1, o2 in itertools.product(ops, ops):
        for a, b, c in itertools.product(V, V, V):
            tid += 1
            ab = ra(o1, a, b)
            traces.append({"id": tid, "events": [{"op": o1, "a": a, "b": b, "r": ab}, {"op": o2, "a": ab, "b": c, "r": ra(o2, ab, c)}]})
    t2, acc, diag = validate_traces("Logic4Trace", "Logic4Trace.cfg", traces, work)
    res.add_tlc("Logic4Trace: recorded runs of the real operators", t2)
    res.count("traces_validated_against_impl", len(traces))
    for tr in traces:
        if tr["id"] not in acc:
            at, exp = diag.get(tr["id"], (0, ()))
            res.violation(f"recorded run rejected by Logic4 at event {at}: {tr['events']} (spec expects {exp})",
                          {"kind": "trace", "events": tr["events"], "at": at})
    res.coverage["exhaustive"] = True
    res.coverage["rule"] = ("every (operator, a, b) over the four values is one case (48 distinct, all non-trivial); laws are "
                            "additionally evaluated on all 4^3 triples per operator; 624 recorded runs validated by TLC")
    res.assumptions += ["TLC 1.8 evaluates the ASSUMEs of Logic4 exhaustively over the finite domain",
                        "README rows are transcribed in Logic4.ReadmeRows and re-parsed from README.rst at run time"]
    return res.finish(work)


def replay(case):
    import ahb
    if case.get("kind") == "cell":
        got = real_apply(ahb.ST, ahb.ST_INV, case["op"], case["a"], case["b"])
        print(f"{case['a']} {case['op']} {case['b']} -> code {got}, spec {case['expected']}")
        return 0 if got == case["expected"] else 1
    print("replay: re-running the whole (exhaustive, <10 s) check")
    return run()


if __name__ == "__main__":
    main_wrapper(run)
