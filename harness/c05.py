"""C05 - hints, format constraints, brackets, operand order never change the requirement; definite outcomes are stable
under refinement of UNKNOWN (Eval.tla: LawHintAnd, LawAttachFc, LawSwap, LawDefiniteIsStable)."""
import evalcheck as E
from common import Result, Work, main_wrapper, run_tlc, tier

PID = "C05"
INV = ["TypeOK", "MachineAgreesWithDen", "ValidityIsStructural", "C05Laws"]


def run():
    res = Result(PID)
    work = Work(PID)
    thorough = tier() == "thorough"
    n = 4 if thorough else 3
    cfg = E.write_cfg(work, "eval.cfg", n, True, INV)
    t = run_tlc("Eval", cfg, work, timeout=3000)
    res.add_tlc(f"Eval: the four laws at every position of every valid expression <= {n} leaves x all assignments (spec level)", t)
    # replay bound: every complete program <= 3 leaves (quick and thorough); thorough adds a seeded sample of the 4-leaf ones
    cfg3 = E.write_cfg(work, "eval3.cfg", 3, False, ["TypeOK"])
    dump = work.path("eval.dump")
    t3 = run_tlc("Eval", cfg3, work, dump=dump)
    res.add_tlc("Eval: enumeration of the programs replayed as (original, transformed) pairs", t3)
    E.replay_dump("C05", dump, res)
    res.coverage["traces_validated_against_impl"] = res.coverage.get("law_pairs", 0)
    dump.unlink()
    if thorough:
        cfg4 = E.write_cfg(work, "eval4.cfg", 4, False, ["TypeOK"])
        dump4 = work.path("eval4.dump")
        t4 = run_tlc("Eval", cfg4, work, dump=dump4, timeout=3000)
        res.add_tlc("Eval: enumeration <= 4 leaves, every 7th complete program replayed as pairs", t4)
        E.replay_dump("C05", dump4, res, stride=7)
        res.coverage["traces_validated_against_impl"] = res.coverage.get("law_pairs", 0)
        dump4.unlink()
    E.deep_law_pairs(res, 1500 if thorough else 150)
    res.coverage["traces_validated_against_impl"] = res.coverage.get("law_pairs", 0)
    res.coverage["exhaustive"] = True
    res.coverage["rule"] = ("one case = (valid expression, assignment, law instance): hint and-ed left/right onto the root or any operand of "
                            "U/O/X, FC attached left/right to any sub-expression containing an RC, operands of any U/O/X swapped, redundant "
                            "brackets, every refinement of UNKNOWN entries when the outcome is definite; both members of every pair are "
                            "evaluated by the real code; distinct by (law, transformed tree, assignment)")
    res.assumptions += ["the law positions enumerated by the harness transliterate HintAndPositions / the quantifiers of LawAttachFc and LawSwap in Eval.tla"]
    return res.finish(work)


def replay(case):
    import asyncio
    import ahb
    ahb.configure()
    E._KM.clear(); E._KM_INV.clear()
    for k, v in (case.get("keymap") or {}).items():
        E._KM[int(k)] = v
        E._KM_INV[v] = int(k)
    asg = {int(k): v for k, v in case["asg"].items()}
    a = asyncio.run(E.eval_real(case["expr"], asg))
    print("original   :", case["expr"], asg, "->", a)
    rc = 0
    if "transformed" in case:
        b = asyncio.run(E.eval_real(case["transformed"], asg))
        print("transformed:", case["transformed"], "->", b)
        rc = 0 if (b["err"] is None and b.get("outcome") == a.get("outcome")) else 1
    if "refined" in case:
        b = asyncio.run(E.eval_real(case["expr"], {int(k): v for k, v in case["refined"].items()}))
        print("refined    :", case["refined"], "->", b)
        rc = 0 if b.get("outcome") == a.get("outcome") else 1
    return rc


if __name__ == "__main__":
    main_wrapper(run)
