"""Shared plumbing for all checks: TLC runner, TLA+ value parser, evidence writer, known findings,
violation reporting. Nothing in here knows about a particular property."""
import hashlib
import json
import os
import re
import shutil
import subprocess
import sys
import time
from pathlib import Path

VERIF = Path(__file__).resolve().parent.parent
SPEC = VERIF / "spec"
EVIDENCE = VERIF / "evidence"
REPLAYS = VERIF / "replays"
REPO = Path(os.environ.get("AHBICHT_REPO", "/repo"))
TLC_CP = "/opt/veriftools/tla/tla2tools.jar:/opt/veriftools/tla/CommunityModules-deps.jar"


class MachineryError(Exception):
    """Something in the verification machinery itself failed (exit code 2, never a VIOLATION)."""


def seed() -> int:
    try:
        return int(os.environ.get("VERIF_SEED", "0"))
    except ValueError:
        return 0


def tier(default="quick") -> str:
    t = os.environ.get("VERIF_TIER", default)
    return t if t in ("quick", "thorough") else default


# ---------------------------------------------------------------- work directories
class Work:
    """A scratch directory under /verif/.work that is removed when the check ends."""

    def __init__(self, pid: str):
        self.dir = VERIF / ".work" / f"{pid}-{os.getpid()}"
        if self.dir.exists():
            shutil.rmtree(self.dir)
        self.dir.mkdir(parents=True)
        # scratch directories of runs that were killed (their process no longer exists) are removed as well: they can be large
        for d in self.dir.parent.glob(f"{pid}-*"):
            owner = d.name.rsplit("-", 1)[-1]
            if d.is_dir() and owner.isdigit() and int(owner) != os.getpid() and not os.path.exists(f"/proc/{owner}"):
                shutil.rmtree(d, ignore_errors=True)

    def path(self, name: str) -> Path:
        return self.dir / name

    def cleanup(self):
        shutil.rmtree(self.dir, ignore_errors=True)


# ---------------------------------------------------------------- TLC
_SUMMARY = re.compile(r"(\d+) states generated, (\d+) distinct states found, (\d+) states left on queue")


def run_tlc(module: str, cfg: str, work: Work, workers=16, dump: Path = None, simulate: str = None, depth=None,
            env_extra=None, timeout=3600, extra_args=(), expect_violation=False, coverage=False, tag=None) -> dict:
    """Runs TLC on spec/<module>.tla with spec/<cfg> (cfg may also be an absolute path to a generated file).
    Returns dict(states, generated, out, ok, violated_invariant)."""
    tag = tag or (Path(str(module)).stem + "-" + Path(cfg).stem)
    meta = work.path("meta-" + tag)
    cfg_path = cfg if os.path.isabs(str(cfg)) else str(SPEC / cfg)
    cmd = ["java", "-XX:+UseParallelGC", "-Xmx8g", "-Xss64m", f"-DTLA-Library={SPEC}", "-cp", TLC_CP, "tlc2.TLC", "-workers", str(workers), "-metadir", str(meta),
           "-noGenerateSpecTE", "-config", cfg_path]
    if dump is not None:
        cmd += ["-dump", str(dump)]
    if simulate is not None:
        cmd += ["-simulate", simulate]
    if depth is not None:
        cmd += ["-depth", str(depth)]
    if coverage:
        cmd += ["-coverage", "1"]
    cmd += list(extra_args)
    # a generated model-instance module (absolute path, e.g. in the work directory) EXTENDS modules found via TLA-Library
    cmd += [module if os.path.isabs(str(module)) else str(SPEC / (module + ".tla"))]
    env = dict(os.environ)
    env.pop("JAVA_TOOL_OPTIONS", None)
    if env_extra:
        env.update({k: str(v) for k, v in env_extra.items()})
    t0 = time.time()
    try:
        cwd = str(Path(str(module)).parent) if os.path.isabs(str(module)) else str(SPEC)
        p = subprocess.run(cmd, cwd=cwd, env=env, capture_output=True, text=True, timeout=timeout)
    except subprocess.TimeoutExpired as e:
        raise MachineryError(f"TLC timed out after {timeout}s: {' '.join(cmd)}") from e
    out = p.stdout + p.stderr
    m = None
    for m in _SUMMARY.finditer(out):
        pass
    res = {"cmd": " ".join(cmd[7:]), "out": out, "rc": p.returncode, "wall_s": round(time.time() - t0, 2),
           "generated": int(m.group(1)) if m else 0, "states": int(m.group(2)) if m else 0}
    inv = re.search(r"Invariant (\S+) is violated", out)
    res["violated_invariant"] = inv.group(1) if inv else None
    if re.search(r"Assumption .* is false|evaluated to non-boolean|Error: ", out) and not inv:
        res["error"] = True
    else:
        res["error"] = False
    res["ok"] = (p.returncode == 0 and not res["error"] and inv is None)
    shutil.rmtree(meta, ignore_errors=True)
    if not expect_violation and not res["ok"]:
        tail = "\n".join(out.splitlines()[-40:])
        raise MachineryError(f"TLC failed on {module}/{cfg} (rc={p.returncode}, invariant={res['violated_invariant']}):\n{tail}")
    return res


def sany_ok(module: str) -> bool:
    p = subprocess.run(["java", "-cp", TLC_CP, "tla2sany.SANY", str(SPEC / (module + ".tla"))], cwd=str(SPEC),
                       capture_output=True, text=True)
    return p.returncode == 0 and "Semantic errors" not in p.stdout and "***Parse Error***" not in p.stdout


# ---------------------------------------------------------------- TLA+ value parser (for -dump and PrintT output)
_tok = re.compile(r'\s*(<<|>>|\|->|:>|@@|[\[\]{}(),]|"(?:[^"\\]|\\.)*"|-?\d+|[A-Za-z_][A-Za-z0-9_]*)')


def _tokenize(s):
    pos = 0
    out = []
    n = len(s)
    while pos < n:
        m = _tok.match(s, pos)
        if not m:
            if s[pos:].strip() == "":
                break
            raise ValueError("bad TLA+ token at %r" % s[pos:pos + 30])
        out.append(m.group(1))
        pos = m.end()
    return out


def parse_tla(s):
    toks = _tokenize(s)
    v, i = _val(toks, 0)
    if i != len(toks):
        raise ValueError("trailing tokens %r" % toks[i:i + 5])
    return v


def _val(t, i):
    x = t[i]
    if x == "<<":
        i += 1
        items = []
        while t[i] != ">>":
            v, i = _val(t, i)
            items.append(v)
            if t[i] == ",":
                i += 1
        return tuple(items), i + 1
    if x == "{":
        i += 1
        items = []
        while t[i] != "}":
            v, i = _val(t, i)
            items.append(v)
            if t[i] == ",":
                i += 1
        try:
            return frozenset(items), i + 1
        except TypeError:       # a set of records / functions: python dicts are not hashable, hand the elements out as a list
            return items, i + 1
    if x == "[":
        i += 1
        d = {}
        while t[i] != "]":
            k = t[i]
            while t[i + 1] != "|->" and re.fullmatch(r"\w+", t[i + 1]):     # TLC prints string keys such as "1P" as record fields: 1P |-> ..
                k += t[i + 1]
                i += 1
            assert t[i + 1] == "|->", t[i:i + 3]
            v, i = _val(t, i + 2)
            d[k] = v
            if t[i] == ",":
                i += 1
        return d, i + 1
    if x == "(":
        i += 1
        d = {}
        while t[i] != ")":
            k, i = _val(t, i)
            assert t[i] == ":>"
            v, i = _val(t, i + 1)
            d[k] = v
            if t[i] == "@@":
                i += 1
        return d, i + 1
    if x.startswith('"'):
        return x[1:-1], i + 1
    if x == "TRUE":
        return True, i + 1
    if x == "FALSE":
        return False, i + 1
    if re.fullmatch(r"-?\d+", x):
        return int(x), i + 1
    return x, i + 1


def dump_states(path, shard=None, nshards=1):
    """Yields the states of a `tlc -dump` file as dicts var -> python value. With shard/nshards only every
    nshards-th state (by position in the file) is parsed."""
    cur = None
    name = None
    buf = None
    idx = -1
    take = True

    def flush():
        if cur is not None and name:
            cur[name] = parse_tla(buf)

    with open(path) as f:
        for line in f:
            if line.startswith("State "):
                if cur is not None and take:
                    flush()
                    yield cur
                idx += 1
                take = (shard is None) or (idx % nshards == shard)
                cur = {}
                name = None
                buf = None
            elif not take:
                continue
            elif line.startswith("/\\ "):
                flush()
                name, rest = line[3:].split(" = ", 1)
                buf = rest
            elif line.strip() == "":
                pass
            elif buf is not None:
                buf += line
    if cur is not None and take:
        flush()
        yield cur


def to_tla(v) -> str:
    """python value -> TLA+ literal (tuples/lists -> sequences, dict -> record, frozenset -> set)."""
    if isinstance(v, bool):
        return "TRUE" if v else "FALSE"
    if isinstance(v, int):
        return str(v)
    if isinstance(v, str):
        return '"' + v.replace("\\", "\\\\").replace('"', '\\"') + '"'
    if isinstance(v, (tuple, list)):
        return "<<" + ", ".join(to_tla(x) for x in v) + ">>"
    if isinstance(v, (set, frozenset)):
        return "{" + ", ".join(sorted(to_tla(x) for x in v)) + "}"
    if isinstance(v, dict):
        return "[" + ", ".join(f"{k} |-> {to_tla(x)}" for k, x in v.items()) + "]"
    raise TypeError(type(v))


def printt_values(out: str, tag: str):
    """Extracts the values of PrintT(<<tag, ...>>) lines from TLC output (bracket matching, so that
    output interleaved by several workers is still split correctly)."""
    res = []
    needle = re.compile(r'<<\s*"' + re.escape(tag) + '"')
    pos = 0
    while True:
        m = needle.search(out, pos)
        if not m:
            break
        i = m.start()
        depth = 0
        j = i
        while j < len(out):
            if out.startswith("<<", j):
                depth += 1
                j += 2
                continue
            if out.startswith(">>", j):
                depth -= 1
                j += 2
                if depth == 0:
                    break
                continue
            j += 1
        try:
            res.append(parse_tla(out[i:j]))
        except Exception:
            pass
        pos = j
    return res


# ---------------------------------------------------------------- known findings
def known_findings(pid: str):
    p = VERIF / "known_findings.json"
    if not p.exists():
        return []
    data = json.loads(p.read_text())
    return [e for e in data.get("entries", []) if e.get("property") == pid and e.get("status") == "finding"]


# ---------------------------------------------------------------- result / evidence
class Result:
    """Collects what a check covered and what it found; writes the evidence file; decides the exit code."""

    def __init__(self, pid: str, level="model_checking"):
        self.pid = pid
        self.level = level
        self.t0 = time.time()
        self.tier = tier()
        self.seed = seed()
        self.coverage = {"states": 0, "transitions": 0, "traces_validated_against_impl": 0, "samples": [],
                         "evaluations": 0, "distinct_nontrivial": 0, "exhaustive": False, "tlc_runs": []}
        self.assumptions = []
        self.violations = []   # list of (key, description, case)
        self.known_hits = []
        self._known = known_findings(pid)
        self._distinct = set()

    def add_tlc(self, name, res):
        self.coverage["states"] += res["states"]
        self.coverage["transitions"] += res["generated"]
        self.coverage["tlc_runs"].append({"name": name, "cmd": res["cmd"], "distinct_states": res["states"],
                                          "states_generated": res["generated"], "wall_s": res["wall_s"]})
        self.coverage.setdefault("checker_cmd", "tlc " + res["cmd"])

    def sample(self, s, limit=6):
        if len(self.coverage["samples"]) < limit:
            self.coverage["samples"].append(s)

    def count(self, key, n=1):
        self.coverage[key] = self.coverage.get(key, 0) + n

    def distinct(self, canonical, nontrivial=True):
        if nontrivial:
            h = hashlib.blake2b(repr(canonical).encode(), digest_size=8).digest()
            self._distinct.add(h)

    def merge_distinct(self, hashes):
        self._distinct.update(hashes)

    def violation(self, description: str, case, match_key: str = None):
        """Registers a disagreement between the code and the property. If it matches a listed known finding it is
        reported as KNOWN-FINDING, otherwise as VIOLATION."""
        for e in self._known:
            if match_key is not None and match_key == e.get("match_key"):
                if e["id"] not in [k["id"] for k in self.known_hits]:
                    self.known_hits.append(e)
                return
        self.violations.append((description, case))

    def finish(self, work: Work = None) -> int:
        cov = self.coverage
        cov["distinct_nontrivial"] = len(self._distinct)
        for k in [k for k in cov if k.startswith("_")]:
            del cov[k]
        if cov.get("checker_cmd", "").startswith("tlc tlc2.TLC"):
            cov["checker_cmd"] = cov["checker_cmd"][4:]
        wall = round(time.time() - self.t0, 2)
        ev = {"property_id": self.pid, "tier": self.tier, "seed": self.seed, "level": self.level, "coverage": cov,
              "assumptions": self.assumptions, "wall_s": wall, "violations": len(self.violations)}
        if self.known_hits:
            cov["known_findings_hit"] = [e["id"] for e in self.known_hits]
        EVIDENCE.mkdir(exist_ok=True)
        evpath = EVIDENCE / f"{self.pid}.json"
        if os.environ.get("VERIF_NO_EVIDENCE"):   # self-test runs against mutants must not overwrite the real evidence
            evpath = VERIF / ".work" / f"evidence-{self.pid}-{os.getpid()}.json"
        evpath.write_text(json.dumps(ev, indent=1, ensure_ascii=False, default=str) + "\n")
        for e in self.known_hits:
            print(f"KNOWN-FINDING: property={self.pid} {e['description']}")
        rc = 0
        if self.violations:
            REPLAYS.mkdir(exist_ok=True)
            seen = set()
            for desc, case in self.violations[:20]:
                body = json.dumps({"property": self.pid, "description": desc, "case": case, "seed": self.seed},
                                  indent=1, ensure_ascii=False, default=str)
                h = hashlib.blake2b(body.encode(), digest_size=6).hexdigest()
                if h in seen:
                    continue
                seen.add(h)
                path = REPLAYS / f"{self.pid}-{h}.json"
                path.write_text(body + "\n")
                print(f"VIOLATION property={self.pid} replay={path}")
                print(f"  {desc}")
            if len(self.violations) > 20:
                print(f"  ... and {len(self.violations) - 20} more disagreements")
            rc = 1
        else:
            print(f"OK property={self.pid} tier={self.tier} seed={self.seed} states={cov['states']} "
                  f"impl_checks={cov['traces_validated_against_impl']} wall={wall}s")
        if work is not None:
            work.cleanup()
        return rc


def main_wrapper(fn):
    """Runs a check function; maps machinery failures to exit code 2."""
    try:
        rc = fn()
    except MachineryError as e:
        print(f"MACHINERY-FAILURE: {e}", file=sys.stderr)
        rc = 2
    except Exception:
        import traceback
        traceback.print_exc()
        print("MACHINERY-FAILURE: unexpected exception in the harness", file=sys.stderr)
        rc = 2
    sys.exit(rc)


# ---------------------------------------------------------------- batch trace validation (code -> spec)
def validate_traces(module: str, cfg: str, traces: list, work: Work, tag="tr", env_extra=None, timeout=3600):
    """traces: list of dicts with unique integer 'id' and 'events'. Runs TLC once over all of them
    (one initial state per trace); returns (tlc_result, accepted_ids, diag) where diag maps each rejected id
    to (index of the first event the spec refuses, what the spec printed for that position)."""
    path = work.path(f"{tag}.ndjson")
    with open(path, "w") as f:
        for t in traces:
            f.write(json.dumps(t, ensure_ascii=True) + "\n")
    env = {"TRACE_FILE": str(path), "VERIF_DIAG": "0"}
    env.update(env_extra or {})
    res = run_tlc(module, cfg, work, workers=1, env_extra=env, timeout=timeout, tag=tag)
    accepted = {v[1] for v in printt_values(res["out"], "ACC")}
    rejected = [t for t in traces if t["id"] not in accepted]
    diag = {}
    if rejected:
        sub = rejected[:25]
        path2 = work.path(f"{tag}-diag.ndjson")
        with open(path2, "w") as f:
            for t in sub:
                f.write(json.dumps(t, ensure_ascii=True) + "\n")
        env2 = dict(env)
        env2.update({"TRACE_FILE": str(path2), "VERIF_DIAG": "1"})
        res2 = run_tlc(module, cfg, work, workers=1, env_extra=env2, timeout=timeout, tag=tag + "-diag")
        at = {}
        for v in printt_values(res2["out"], "AT"):
            cur = at.get(v[1])
            if cur is None or v[2] > cur[0]:
                at[v[1]] = (v[2], v[3:] if len(v) > 3 else ())
        for t in sub:
            diag[t["id"]] = at.get(t["id"], (0, ()))
    return res, accepted, diag


# ---------------------------------------------------------------- random deep behaviours (tlc -simulate)
def simulate_final_states(module, cfg, work: Work, num, depth, sim_seed, tag="sim"):
    """runs `tlc -simulate` and returns (tlc result, [last state of every generated behaviour])"""
    d = work.path(tag)
    if d.exists():
        shutil.rmtree(d)
    d.mkdir()
    res = run_tlc(module, cfg, work, workers=1, simulate=f"file={d}/tr,num={num}", depth=depth, extra_args=["-seed", str(sim_seed)], tag=tag)
    m = re.search(r"(\d+) states checked", res["out"])
    if m:
        res["states"] = res["generated"] = int(m.group(1))
    finals = []
    for f in sorted(d.iterdir()):
        text = f.read_text()
        blocks = re.split(r"^STATE_\d+ == *$", text, flags=re.M)
        if len(blocks) < 2:
            continue
        last = blocks[-1]
        last = re.split(r"^\\\* <|^=+$", last, flags=re.M)[0]
        st = {}
        name = None
        buf = ""
        for line in last.splitlines():
            if line.startswith("/\\ "):
                if name:
                    st[name] = parse_tla(buf)
                name, rest = line[3:].split(" = ", 1)
                buf = rest
            elif line.strip():
                buf += "\n" + line
        if name:
            st[name] = parse_tla(buf)
        finals.append(st)
    shutil.rmtree(d, ignore_errors=True)
    return res, finals


def near_misses(expr: str):
    """Strings that are (most probably) NOT in the language but become `expr` under a normalisation a memo might use as its key: strip(), removal of all
    white space, casefold(), NFKC. They are fed to the same entry point BEFORE the judged call and their own verdict is not judged there: a refused or
    unparsable input handled earlier must not change what a later valid input gives."""
    out = [" " + expr, expr + "\u00a0", "\t" + expr + "\n"]
    m = re.search(r"\[(\d)(\d+)", expr)
    if m:
        out.append(expr[:m.start()] + "[" + m.group(1) + " " + m.group(2) + expr[m.end():])          # [12] -> [1 2]
    m = re.search(r"\](\s*)\[", expr)
    if m:
        out.append(expr[:m.start()] + "] ] [" + expr[m.end():])
    if "ss" in expr.casefold():
        i = expr.casefold().index("ss")
        out.append(expr[:i] + "\u00df" + expr[i + 2:])                                              # Muss -> Mu\u00df (casefold-equal)
    out.append(expr.translate({ord(c): 0xFF10 + int(c) for c in "0123456789"}))                   # full-width digits (NFKC-equal)
    out.append(expr.replace("[", "\uff3b", 1))                                                    # full-width bracket
    return [o for o in out if o != expr]
