"""The model of WHERE ahbicht gathers: derives the series-parallel plan (see spec/Async.tla) of each asynchronous entry point from
the static structure of its input, mirroring the code:

  requirement_constraint_evaluation(cond)   Seq[ Await(rc key occurrences in token order), Await(hint key occurrences) ]
  format_constraint_evaluation(fcexpr)      Await(fc key occurrences in token order)            (nothing for an empty expression)
  one modal-mark / prefix part              Seq[ requirement evaluation, format evaluation of the collected expression ]
  evaluate_ahb_expression_tree              Par[ parts that have a condition ]                  (gather_if_necessary)
  expand_packages                           Await(package occurrences in tree order); a tree that IS a package: awaited alone first
  is_valid_expression                       Par[ Seq[ Bind(cer), AHB evaluation ] for every generated content evaluation result ]
  validate_* (see validation_plan)          group: Seq[own expression, Par[sub-groups ++ segments]]; segment: Seq[own, Par[elements]];
                                            free text: Seq[resolve, Set(input), evaluate]; value pool: Seq over entries; deep: Par[groups]
and emits it as the TLA+ constant `Plan` (function from positions to nodes) with the `Expect` map."""
import re

from common import to_tla


def seq(*children):
    return ("seq", [c for c in children if c is not None])


def par(*children):
    return ("par", [c for c in children if c is not None])


def await_(labels):
    return ("await", list(labels))


def set_(v):
    return ("set", v)


def bind(v):
    return ("bind", v)


# ------------------------------------------------------------------ static structure of expressions (token order)
def cond_tokens(tree):
    """(type, value) of all tokens of a lark tree in tree order (what scan_values yields)"""
    from lark import Token
    return [(str(t.type), str(t.value)) for t in tree.scan_values(lambda v: isinstance(v, Token))]


def classify(key):
    n = int(key)
    if 1 <= n <= 499 or 2000 <= n <= 2499:
        return "rc"
    if 500 <= n <= 900:
        return "hint"
    return "fc"


def plan_requirement_evaluation(cond_tree, tag=""):
    keys = [v for t, v in cond_tokens(cond_tree) if t == "CONDITION_KEY"]
    rcs = [f"rc:{k}{tag}" for k in keys if classify(k) == "rc"]
    hints = [f"hint:{k}{tag}" for k in keys if classify(k) == "hint"]
    return seq(await_(rcs), await_(hints))


def plan_format_evaluation(fc_expr, text_tag):
    """text_tag(key) -> suffix describing what the evaluator must be handed"""
    if not fc_expr:
        return None
    keys = re.findall(r"\[(\d+)\]", fc_expr)
    # 931-935 are the shipped, synchronous date-time constraints: evaluated inside the gather but never suspended, so they are no gated awaitables
    return await_([f"fc:{k}{text_tag}" for k in keys if not 931 <= int(k) <= 935])


def plan_ahb_evaluation(parts, text_tag="", tag=""):
    """parts: list of (cond_tree or None, collected fc expression or None)"""
    children = []
    for cond_tree, fc_expr in parts:
        if cond_tree is None:
            continue
        children.append(seq(plan_requirement_evaluation(cond_tree, tag), plan_format_evaluation(fc_expr, text_tag)))
    return par(*children)


def plan_expand_packages(tree):
    from lark import Tree
    if isinstance(tree, Tree) and str(tree.data) == "package":
        return seq(await_([f"pkg:{tree.children[0].value}"]), await_([]))
    pk = [f"pkg:{v}" for t, v in cond_tokens(tree) if t == "PACKAGE_KEY"]
    return await_(pk)


# ------------------------------------------------------------------ numbering, flattening, TLA+ emission
def number_labels(plan):
    """appends #n (n-th start of the same base, in plan order) to every label; returns the new plan"""
    counts = {}

    def go(node):
        t = node[0]
        if t == "await":
            out = []
            for base in node[1]:
                counts[base] = counts.get(base, 0) + 1
                out.append(f"{base}#{counts[base]}")
            return ("await", out)
        if t in ("seq", "par"):
            return (t, [go(c) for c in node[1]])
        return node

    return go(plan)


def flatten(plan):
    """-> dict position(tuple) -> node record (python dict)"""
    out = {}

    def go(node, pos):
        t = node[0]
        if t in ("seq", "par"):
            out[pos] = {"t": t, "n": len(node[1]), "labels": (), "v": ""}
            for i, c in enumerate(node[1], start=1):
                go(c, pos + (i,))
        elif t == "await":
            out[pos] = {"t": "await", "n": 0, "labels": tuple(node[1]), "v": ""}
        else:
            out[pos] = {"t": t, "n": 0, "labels": (), "v": node[1]}

    go(plan, ())
    return out


def all_labels(plan):
    return [l for node in flatten(plan).values() for l in node["labels"]]


def emit_tla(name, plan, expect):
    """-> text of module MC_<name> (EXTENDS Async) defining MCPlan and MCExpect. expect: label -> (text, data) ('any' = unconstrained)"""
    flat = flatten(plan)
    rows = []
    for pos, n in flat.items():
        rows.append(f"({to_tla(pos)} :> [t |-> {to_tla(n['t'])}, n |-> {n['n']}, labels |-> {to_tla(n['labels'])}, v |-> {to_tla(n['v'])}])")
    labels = all_labels(plan)
    erows = [f"({to_tla(l)} :> [text |-> {to_tla(expect.get(l, ('any', 'any'))[0])}, data |-> {to_tla(expect.get(l, ('any', 'any'))[1])}])" for l in labels]
    if not erows:
        erows = ['("none" :> [text |-> "any", data |-> "any"])']
    return (f"---- MODULE MC_{name} ----\nEXTENDS Async\nMCPlan == " + "\n  @@ ".join(rows) + "\nMCExpect == " + "\n  @@ ".join(erows) + "\n====\n")


def cfg_text(gather="positional", ctx="copy", invariants=("Assoc", "OwnContext", "TypeOK"), props=("NoLostOrDoubleStart",)):
    view = "VIEW ViewWithoutOrder\n" if gather == "positional" else ""
    live = "PROPERTY Termination\n" if props else ""
    return (f"CONSTANTS\n Plan <- MCPlan\n Expect <- MCExpect\n GatherMode = \"{gather}\"\n CtxMode = \"{ctx}\"\nSPECIFICATION FairSpec\n{view}"
            + "".join(f"INVARIANT {i}\n" for i in invariants) + "".join(f"PROPERTY {p}\n" for p in props) + live + "CHECK_DEADLOCK FALSE\n")
