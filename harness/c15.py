"""C15 - each data element's format constraints see only that element's own input, for every interleaving of the concurrently
validated groups, segments and data elements (Async.tla + gate driver on the real validation functions)."""
import asyncio
import copy
import random

import asyncsc as A
import gates as GT
import plans as PL
from c12 import _auto, ahb_parts, fc_rule
from common import MachineryError, Result, Work, main_wrapper, seed, tier

PID = "C15"


def G_(disc, expr, segments=(), groups=()):
    from maus.models.edifact_components import SegmentGroup
    return SegmentGroup(discriminator=disc, ahb_expression=expr, segments=list(segments), segment_groups=list(groups))


def S_(disc, expr, elements=()):
    from maus.models.edifact_components import Segment
    return Segment(discriminator=disc, ahb_expression=expr, data_elements=list(elements))


def F_(disc, expr, text):
    from maus.models.edifact_components import DataElementFreeText
    return DataElementFreeText(discriminator=disc, ahb_expression=expr, entered_input=text, data_element_id="1234")


def P_(disc, entries, text):
    from maus.models.edifact_components import DataElementValuePool, ValuePoolEntry
    return DataElementValuePool(discriminator=disc, data_element_id="0333", entered_input=text,
                                value_pool=[ValuePoolEntry(qualifier=q, meaning=q, ahb_expression=e) for q, e in entries])


def project(results):
    out = []
    for r in results:
        v = r.validation_result
        out.append((r.discriminator, str(v.requirement_validation), getattr(v, "format_validation_fulfilled", None),
                    getattr(v, "format_error_message", None), v.hints, tuple((getattr(v, "possible_values", None) or {}).keys())))
    return tuple(out)


def expression_plan(expr, ev, text_tag="", set_text=None):
    """Seq[ resolve packages, (Set(text)), evaluate the AHB expression ]"""
    from ahbicht.expressions.expression_resolver import parse_expression_including_unresolved_subexpressions

    async def parse_unresolved():          # public API only: the tree before package expansion (no awaitable is involved without packages)
        return await parse_expression_including_unresolved_subexpressions(expr, resolve_packages=False, replace_time_conditions=False)

    unresolved = _auto(parse_unresolved, ev)

    async def parse():
        return await parse_expression_including_unresolved_subexpressions(expr, resolve_packages=True)

    resolved = _auto(parse, ev)
    return PL.seq(PL.plan_expand_packages(unresolved), PL.set_(str(set_text)) if set_text is not False else None,
                  PL.plan_ahb_evaluation(ahb_parts(resolved, ev), text_tag=text_tag))


def validation_plan(deep, ev, statuses):
    """mirrors validate_deep_anwendungshandbuch / validate_segment_group / validate_segment / validate_data_element_*"""
    from maus.models.edifact_components import DataElementFreeText

    def element(e):
        if isinstance(e, DataElementFreeText):
            return expression_plan(e.ahb_expression, ev, text_tag=f"@{e.entered_input}", set_text=e.entered_input)
        if len(e.value_pool) == 1:
            return PL.seq()
        return PL.seq(*[expression_plan(x.ahb_expression, ev, text_tag="@None", set_text=False) for x in e.value_pool])

    def segment(s):
        own = expression_plan(s.ahb_expression, ev, text_tag="@None", set_text=False)
        if statuses[s.discriminator] == "IS_FORBIDDEN":
            return PL.seq(own)
        return PL.seq(own, PL.par(*[element(e) for e in s.data_elements]))

    def group(g):
        own = expression_plan(g.ahb_expression, ev, text_tag="@None", set_text=False)
        if statuses[g.discriminator] == "IS_FORBIDDEN":
            return PL.seq(own)
        return PL.seq(own, PL.par(*([group(x) for x in (g.segment_groups or [])] + [segment(x) for x in (g.segments or [])])))

    return PL.par(*[group(g) for g in deep.lines])


def sc_validation(name, lines, rc, packages=None, soll=True, describe="", entry="deep"):
    from ahbicht.validation.validation import validate_data_element_freetext, validate_deep_anwendungshandbuch
    from ahbicht.models.validation_values import RequirementValidationValue
    from maus.models.anwendungshandbuch import AhbMetaInformation, DeepAnwendungshandbuch
    from maus.models.edifact_components import DataElementFreeText
    ev = GT.make_evaluators(rc_values=rc, fc_rule=fc_rule, packages=packages or {})
    deep = DeepAnwendungshandbuch(meta=AhbMetaInformation(pruefidentifikator="11042"), lines=lines)

    from ahbicht.content_evaluation.fc_evaluators import text_to_be_evaluated_by_format_constraint as text_var
    STALE = "stale7text-of-the-caller"      # the caller's context already holds a text (e.g. from an earlier direct call): nobody's own input

    async def ref():
        text_var.set(STALE)
        return await validate_deep_anwendungshandbuch(copy.deepcopy(deep), soll_is_required=soll)

    GT.G.reset(auto=True, tag_text=True)
    import ahb
    ahb.use_provider(ev)
    ref_result = asyncio.run(ref())
    statuses = {r.discriminator: str(r.validation_result.requirement_validation) for r in ref_result}
    plan = validation_plan(deep, ev, statuses)
    async def factory():
        text_var.set(STALE)
        return await validate_deep_anwendungshandbuch(copy.deepcopy(deep), soll_is_required=soll)

    if entry == "segment":
        # the first segment of the first group through validate_segment (group requirement IS_REQUIRED)
        from ahbicht.validation.validation import validate_segment
        seg = deep.lines[0].segments[0]
        sub = DeepAnwendungshandbuch(meta=deep.meta, lines=[G_("wrapper", "Muss", [seg])])
        full = validation_plan(sub, ev, dict(statuses, wrapper="IS_REQUIRED"))
        plan = full[1][0][1][1][1][0]          # par[group seq[own, par[segment]]] -> the segment's plan
        plan = PL.par(plan)[1][0]
        async def factory():       # noqa: F811
            text_var.set(STALE)
            return await validate_segment(copy.deepcopy(seg), RequirementValidationValue.IS_REQUIRED, soll)

        async def ref2():
            text_var.set(STALE)
            return await validate_segment(copy.deepcopy(seg), RequirementValidationValue.IS_REQUIRED, soll)
        GT.G.reset(auto=True, tag_text=True)
        ref_result = asyncio.run(ref2())
    numbered = PL.number_labels(plan)
    expect = {}
    for l in PL.all_labels(numbered):
        if l.startswith("fc:"):
            expect[l] = (l.split("@", 1)[1].rsplit("#", 1)[0], "any")
    sc = A.Scenario(name, plan, factory, ev, tag_text=True,
                    expect=expect, project=project, describe=describe or name)

    # the result of every free-text element equals the result of validating that element on its own
    def alone_checks():
        ahb.use_provider(ev)
        problems = []
        full = {r[0]: r for r in project(ref_result)}

        def walk(g, parent_status):
            for sg in (g.segment_groups or []):
                if statuses.get(sg.discriminator) not in (None, "IS_FORBIDDEN"):
                    walk(sg, statuses[sg.discriminator])
            for s in (g.segments or []):
                st = statuses.get(s.discriminator)
                if st in (None, "IS_FORBIDDEN"):
                    continue
                for e in s.data_elements:
                    if isinstance(e, DataElementFreeText):
                        async def one(e=e, st=st):
                            text_var.set(STALE)
                            return await validate_data_element_freetext(copy.deepcopy(e), RequirementValidationValue(st), soll)
                        GT.G.reset(auto=True, tag_text=True)
                        alone = project([asyncio.run(one())])[0]
                        if alone != full.get(e.discriminator):
                            problems.append((e.discriminator, alone, full.get(e.discriminator)))

        for g in deep.lines:
            if statuses.get(g.discriminator) != "IS_FORBIDDEN":
                walk(g, statuses[g.discriminator])
        # no element's result may talk about another element's input
        inputs = {}

        def collect(g):
            for sg in (g.segment_groups or []):
                collect(sg)
            for s_ in (g.segments or []):
                for e in s_.data_elements:
                    if isinstance(e, DataElementFreeText) and e.entered_input and len(e.entered_input) >= 8:
                        inputs[e.discriminator] = e.entered_input
        for g in deep.lines:
            collect(g)
        for disc, row in full.items():
            msg = row[3] or ""
            for other, text in inputs.items():
                if other != disc and text in msg and inputs.get(disc) != text:
                    problems.append((disc, f"error message quotes the input of {other}: {msg!r}", row))
        return problems

    sc.alone_checks = alone_checks
    return sc


def scenarios(thorough):
    s = [
        sc_validation("seg2", [G_("g1", "Muss", [S_("s1", "Muss [1]", [F_("e1", "Muss [2][901]", "a1"), F_("e2", "Muss [3] U [501][901]", "b")])])],
                      {1: "F", 2: "F", 3: "F"}, describe="one segment, two free-text elements with the same format constraint key and different inputs"),
        sc_validation("segempty", [G_("g1", "Muss", [S_("s1", "Muss", [F_("e1", "Muss [1][901]", "a1"), F_("e2", "Muss [2][901]", None), F_("e3", "Muss [3][901]", "")])])],
                      {1: "F", 2: "F", 3: "F"}, describe="a filled element followed by elements without input (None / empty string) that carry the same format constraint"),
        sc_validation("seg3same", [G_("g1", "Muss", [S_("s1", "Muss", [F_("e1", "Muss [1][901]", "a1"), F_("e2", "Muss [2][901]", "b"), F_("e3", "Muss [3][901]", "a1")])])],
                      {1: "F", 2: "F", 3: "F"}, describe="three elements with the same format constraint key, two of them with the same input"),
        sc_validation("datetime", [G_("g1", "Muss", [S_("s1", "Muss", [F_("e1", "Muss [1][932]", "2022-06-01T10:00:00+00:00"),
                                                                  F_("e2", "Muss [2][932]", "2022-06-01T12:00:00+02:00"),
                                                                  F_("e3", "Muss [3][UB1]", "2022-05-31T22:00:00Z")])])],
                      {1: "F", 2: "F", 3: "F"}, describe="shipped date-time constraints on the same instant written with different offsets"),
        sc_validation("ubsame", [G_("g1", "Muss", [S_("s1", "Muss", [F_("e1", "X [UB1]", "2022-05-31T22:00:00Z"), F_("e2", "X [UB1]", "2022-05-31T21:00:00Z"),
                                                                F_("e3", "X [UB1]", "2022-12-31T23:00:00+00:00")])])],
                      {1: "F"}, describe="elements with one and the same time-condition expression and different inputs (start of a Stromtag or not)"),
        sc_validation("segdirect", [G_("g1", "Muss", [S_("s1", "Muss [1]", [F_("e1", "Muss [2][907]", "k7"), F_("e2", "Soll [3][907] Kann [4]", "m")])])],
                      {1: "F", 2: "F", 3: "F", 4: "F"}, entry="segment", describe="validate_segment called directly: two elements, same key 907, inputs k7 / m"),
        sc_validation("seg11", [G_("g1", "X", [S_("s1", "Muss [1]", [F_("e1", "Muss [2][902] Kann [3][903]", "x2")]),
                                               S_("s2", "Kann [4]", [F_("e2", "X [5][902]", "y3"), F_("e3", "Muss [6]", None)])])],
                      {1: "F", 2: "U", 3: "F", 4: "F", 5: "F", 6: "F"}, describe="two segments; an element with two modal-mark parts; an element without input"),
        sc_validation("grp2", [G_("g1", "Muss [1]", [S_("s1", "Muss", [F_("e1", "Muss [1P]", "p4")])]),
                               G_("g2", "Soll [2]", [S_("s2", "Muss [3]", [F_("e2", "Muss [4][904]", "q")])])],
                      {1: "F", 2: "F", 3: "F", 4: "F", 5: "F"}, packages={"1P": "[5][904]"}, soll=False,
                      describe="two root groups; a package that brings in a format constraint"),
    ]
    if thorough:
        s += [
            sc_validation("ubsame2", [G_("g1", "Muss", [S_("s2", "Muss", [F_("e4", "Muss [1][UB2]", "2022-06-01T04:00:00Z"), F_("e5", "Muss [1][UB2]", "2022-06-01T05:00:00Z")])])],
                          {1: "F"}, describe="two elements with the same Gastag expression and different inputs"),
            sc_validation("seg3", [G_("g1", "Muss", [S_("s1", "Muss", [F_("e1", "Muss [1][901]", "a1"), F_("e2", "Muss [2][901]", "b1"), F_("e3", "Muss [3][901]U[902]", "c2")])])],
                          {1: "F", 2: "F", 3: "F"}, describe="three free-text elements, same key 901, inputs a1/b1/c2"),
            sc_validation("nested", [G_("g1", "Muss [1]", [S_("s1", "Muss", [F_("e1", "Muss [2][905]", "n5")])],
                                        [G_("g2", "Kann [3]", [S_("s2", "Muss [4]", [F_("e2", "Muss [6][905]", "m"), P_("p1", [("A", "X [7]"), ("B", "X [8]")], "A")])])])],
                          {1: "F", 2: "F", 3: "F", 4: "F", 6: "F", 7: "F", 8: "U"}, describe="nested group with free text next to a value pool"),
            sc_validation("forbid", [G_("g1", "Muss", [S_("s1", "Muss [1]", [F_("e1", "Muss [2][906]", "f6")]), S_("s2", "Muss [3]", [F_("e2", "Muss [4][906]", "g")])])],
                          {1: "U", 2: "F", 3: "F", 4: "F"}, describe="a forbidden segment next to a validated one"),
        ]
    return s


def fault_check(res):
    """A format-constraint evaluator fails ONCE (TimeoutError / ConnectionError / ValueError) for one element of a segment. Whether the failure surfaces or
    is handled is not judged; every result that IS reported for an element must be the one its own input gives (format verdict and message)."""
    import ahb
    from ahbicht.content_evaluation.fc_evaluators import text_to_be_evaluated_by_format_constraint as text_var
    from ahbicht.models.validation_values import RequirementValidationValue
    from ahbicht.validation.validation import validate_deep_anwendungshandbuch, validate_segment
    from maus.models.anwendungshandbuch import AhbMetaInformation, DeepAnwendungshandbuch
    texts = {"e1": "first-1-input", "e2": "second-input-x", "e3": "third-1-input", "e4": "fourth-input-y"}
    for exc in (TimeoutError, ConnectionError, ValueError):
        for victim in ("e1", "e2", "e4"):
            for entry in ("segment", "deep"):
                state = {"raised": False}

                def rule(k, text, victim=victim, state=state, exc=exc):
                    if text == texts[victim] and not state["raised"]:
                        state["raised"] = True
                        raise exc("evaluator backend failed once")
                    return fc_rule(k, text)
                ev = GT.make_evaluators(rc_values={1: "F", 2: "F", 3: "F", 4: "F"}, fc_rule=rule)
                seg = S_("s1", "Muss", [F_(d, f"Muss [{i}][901]", t) for i, (d, t) in enumerate(texts.items(), start=1)])
                GT.G.reset(auto=True, tag_text=True)
                ahb.use_provider(ev)

                async def go():
                    text_var.set("stale7text-of-the-caller")
                    if entry == "segment":
                        return await validate_segment(copy.deepcopy(seg), RequirementValidationValue.IS_REQUIRED, True)
                    deep = DeepAnwendungshandbuch(meta=AhbMetaInformation(pruefidentifikator="11042"), lines=[G_("g1", "Muss", [copy.deepcopy(seg)])])
                    return await validate_deep_anwendungshandbuch(deep, soll_is_required=True)
                res.count("fault_runs")
                try:
                    rows = project(asyncio.run(go()))
                except BaseException:  # noqa: BLE001 - the failure surfaced: nothing is reported, nothing to judge
                    res.count("fault_runs_where_the_failure_surfaced")
                    continue
                reported = [row[0] for row in rows if row[0] in texts]
                if reported != list(texts):
                    # a result was returned: the slot of every element must be about that element (not about a sibling that was evaluated in its place)
                    res.violation(f"fault scenario ({exc.__name__} once while evaluating [901] for {victim}, entry {entry}): the elements are {list(texts)}, results are "
                                  f"reported for {reported} - an element's slot carries the evaluation of another element's expression and input",
                                  {"scenario": "fault", "kind": "fault", "victim": victim, "exception": exc.__name__, "entry": entry})
                    continue
                for row in rows:
                    if row[0] not in texts:
                        continue
                    own = texts[row[0]]
                    ok = bool(fc_rule(901, own))
                    exp = (ok, None if ok else f"E901 for {own!r}")
                    if (row[2], row[3]) != exp:
                        res.violation(f"fault scenario ({exc.__name__} once while evaluating [901] for {victim}, entry {entry}): element {row[0]} with input {own!r} is reported "
                                      f"with (format ok, message) = {(row[2], row[3])}, its own input gives {exp}",
                                      {"scenario": "fault", "kind": "fault", "victim": victim, "exception": exc.__name__, "entry": entry})


def run():
    res = Result(PID)
    work = Work(PID)
    thorough = tier() == "thorough"
    rng = random.Random(seed() * 89 + 3)
    import ahb
    ahb.configure()
    fault_check(res)
    for i, sc in enumerate(scenarios(thorough)):
        for disc, alone, full in sc.alone_checks():
            res.violation(f"scenario {sc.name}: element {disc} validated on its own gives {alone}, inside the AHB it is reported as {full}",
                          {"scenario": sc.name, "kind": "alone", "element": disc})
        A.check_scenario(sc, res, work, rng, max_all=(3000 if thorough else 250), extra_random=(400 if thorough else 60),
                         sensitivity=([("positional", "shared", "OwnContext")] if i == 0 else None))
    bad = [s for s in res.coverage.get("sensitivity", []) if s["violated"] != s["expected_to_violate"]]
    if bad:
        raise MachineryError(f"sensitivity configuration did not produce its counterexample: {bad}")
    res.coverage["exhaustive"] = False
    res.coverage["rule"] = ("one case = (AHB scenario, completion order of all evaluator / hint / package awaitables of the whole validation run): TLC explores every "
                            "interleaving of the derived plan and checks that every format-constraint awaitable reads the text set by its own data element; the "
                            "real validate_deep_anwendungshandbuch is driven through all interleavings (<=250, thorough <=3000) or a transition cover plus seeded "
                            "random schedules; the labels of the gated format-constraint evaluators carry the text they were handed, so a foreign input shows up "
                            "as a pending-set mismatch; the final result must equal the no-yield result and every element's entry its stand-alone validation")
    res.assumptions += ["format-constraint verdicts are a function of the entered text (key k is fulfilled iff the text contains the digit k mod 10)"]
    return res.finish(work)


def replay(case):
    print("replay re-runs the scenario", case.get("scenario"))
    import ahb
    ahb.configure()
    if case.get("scenario") == "fault":
        res = Result(PID)
        fault_check(res)
        for d, _ in res.violations:
            print(d)
        return 1 if res.violations else 0
    for sc in scenarios(True):
        if sc.name == case.get("scenario"):
            res = Result(PID)
            work = Work(PID + "replay")
            A.check_scenario(sc, res, work, random.Random(0), max_all=10 ** 5)
            work.cleanup()
            for d, _ in res.violations:
                print(d)
            return 1 if res.violations else 0
    return run()


if __name__ == "__main__":
    main_wrapper(run)
