"""C11 - parsing is a pure function of the string, whatever happened before (Cache.tla: histories of parse / edit / eviction)."""
import asyncio
import multiprocessing as mp
import random

from common import MachineryError, Result, Work, dump_states, main_wrapper, run_tlc, seed, tier

PID = "C11"
COND = {"s1": "[{a}]U[{b}]", "s2": "[{a}] U [{b}] U [{c}]", "s3": "([{a}]O[{b}])[{c}]"}
AHBS = {"s1": "Muss[{a}]Soll[{b}]", "s2": "M[{a}]U[{b}]K[{c}]O[{a}]", "s3": "Muss[{a}]U[{b}]Kann"}
_history_counter = [0]


def instantiate(templates):
    """the model strings of one history, made unique so that every history starts with cache misses without touching the cache"""
    _history_counter[0] += 1
    n = 1000 + 3 * _history_counter[0]
    return {k: t.format(a=n, b=n + 1, c=n + 2) for k, t in templates.items()}


# spellings of ONE expression that differ only in white space - one of them with a no-break space, which is no white space of the grammar (always SyntaxError)
# expressions that are a single operand: the returned tree holds nothing but tokens
CONDFLAT = {"s1": "[{a}]", "s2": "[{a}P0..1]", "s3": "[ {c}P ]"}
CONDWS = {"s1": "[{a}] U [{b}]", "s2": "[{a}]\u00a0U\u00a0[{b}]", "s3": "[{a}]\tU  [{b}]"}


def parsers():
    import ahbicht.expressions.ahb_expression_parser as ap
    import ahbicht.expressions.condition_expression_parser as cp
    return {"cond": (cp.parse_condition_expression_to_tree, cp._parser, COND, "[%d]"),
            "condws": (cp.parse_condition_expression_to_tree, cp._parser, CONDWS, "[%d]"),
            "condflat": (cp.parse_condition_expression_to_tree, cp._parser, CONDFLAT, "[%d]"),
            "ahb": (ap.parse_ahb_expression_to_single_requirement_indicator_expressions, ap._parser, AHBS, "M[%d]"),
            # the condition parser reached THROUGH the expression resolver: the resolver embeds trees of the cached condition parser in its result;
            # callers edit that embedded tree; every later parse (directly and through the resolver) must still be pristine
            "via_resolver": (_via_resolver, cp._parser, COND, "[%d]")}


_loop = []
_COND_RULES = {"and_composition", "or_composition", "xor_composition", "then_also_composition", "condition", "package", "time_condition"}


def _via_resolver(text):
    """-> the condition tree embedded in parse_expression_including_unresolved_subexpressions('Muss ' + text) (None if it cannot be located)"""
    from ahbicht.expressions.expression_resolver import parse_expression_including_unresolved_subexpressions
    from lark import Tree
    if not _loop:
        _loop.append(asyncio.new_event_loop())
    t = _loop[0].run_until_complete(parse_expression_including_unresolved_subexpressions("Muss " + text, replace_time_conditions=False))
    for sub in t.iter_subtrees_topdown():
        if isinstance(sub, Tree) and str(sub.data) in _COND_RULES:
            return sub
    return None


def cell(tree, where):
    """the mutable list a model cell stands for (None if the tree was already edited so that it no longer exists)"""
    from lark import Tree
    if where == "root":
        return tree.children
    k = 0 if where == "k1" else 1
    if len(tree.children) > k and isinstance(tree.children[k], Tree):
        return tree.children[k].children
    return None


_edit_counter = [0]


def apply_edit(lst, kind):
    from lark import Token
    if lst is None:
        return
    if kind == "append":
        lst.append(Token("JUNK", "J"))
    elif kind == "remove":
        if lst:
            lst.pop()
    elif lst:
        _edit_counter[0] += 1
        if isinstance(lst[0], Token) and _edit_counter[0] % 2:
            # "replace" in place: the leaf object itself is edited (type and value of a lark Token are plain attributes)
            lst[0].type = "JUNK"
            lst[0].value = "J"
        else:
            lst[0] = Token("JUNK", "J")


_flood_counter = [0]


def raw_parser(which):
    import lark
    import ahbicht.expressions.ahb_expression_parser as ap
    import ahbicht.expressions.condition_expression_parser as cp
    mod, start = (cp, "expression") if which in ("cond", "condws", "condflat", "via_resolver") else (ap, "ahb_expression")
    p = getattr(mod, "_parser", None)
    return p if p is not None else lark.Lark(mod.GRAMMAR, start=start)


def replay_history(which, hist, acc):
    import ahb
    fn, _, templates, filler = parsers()[which]
    strings = instantiate(templates)
    raw = raw_parser(which)

    def outcome(f, text):
        try:
            return ahb.tree_shape(f(text)), None
        except SyntaxError:
            return "SyntaxError", None
        except BaseException as e:  # pylint:disable=broad-except
            return ("SyntaxError" if type(e).__module__.startswith("lark") else "exception " + type(e).__name__), None

    pristine = {k: outcome(raw.parse, s)[0] for k, s in strings.items()}
    handed = []
    for step, a in enumerate(hist):
        if a[0] == "parse":
            try:
                t = fn(strings[a[1]])
                if which == "via_resolver" and t is None:       # the embedded tree could not be located: this mode decides nothing
                    acc["skipped_via_resolver"] = acc.get("skipped_via_resolver", 0) + 1
                    return
                shape = ahb.tree_shape(t)
                if which == "via_resolver" and shape == pristine[a[1]]:     # the direct parse of the same string must be pristine as well
                    shape = ahb.tree_shape(parsers()["cond"][0](strings[a[1]]))
            except SyntaxError:
                t, shape = None, "SyntaxError"
            except MachineryError:
                raise
            except Exception as e:  # noqa: BLE001 - total: a parse that raises anything else is a (wrong) result of that parse
                t, shape = None, f"raised {type(e).__name__}: {str(e)[:120]}"
            handed.append(t)
            if shape != pristine[a[1]]:
                acc["viol"].append((f"{which} parser, history {list(hist[:step + 1])}: parse({strings[a[1]]!r}) gave {shape}, "
                                    f"a fresh parse gives {pristine[a[1]]}", {"which": which, "history": [list(x) for x in hist[:step + 1]]}))
                return
            continue
            if ahb.tree_shape(t) != pristine[a[1]]:
                acc["viol"].append((f"{which} parser, history {list(hist[:step + 1])}: parse({strings[a[1]]!r}) returned {ahb.tree_shape(t)}, "
                                    f"a fresh parse gives {pristine[a[1]]}", {"which": which, "history": [list(x) for x in hist[:step + 1]]}))
                return
        elif a[0] == "edit":
            if handed[a[1] - 1] is not None:
                apply_edit(cell(handed[a[1] - 1], a[2]), a[3])
        else:
            n = cache_maxsize(which)
            for _ in range(n):
                _flood_counter[0] += 1
                try:
                    fn(filler % _flood_counter[0])
                except Exception as e:  # noqa: BLE001 - total: a fresh well-formed string must parse whatever was parsed before
                    acc["viol"].append((f"{which} parser, history {list(hist[:step + 1])}: while {_flood_counter[0]} distinct strings had been parsed in this process, "
                                        f"parsing the fresh well-formed string {filler % _flood_counter[0]!r} raised {type(e).__name__}: {str(e)[:120]}",
                                        {"which": which, "history": [list(x) for x in hist[:step + 1]]}))
                    return
    acc["n"] += 1


def cache_maxsize(which):
    import ahbicht.expressions.ahb_expression_parser as ap
    import ahbicht.expressions.condition_expression_parser as cp
    mod, name = (cp, "parse_condition_expression_to_tree") if which in ("cond", "condws", "condflat", "via_resolver") else (ap, "parse_ahb_expression_to_single_requirement_indicator_expressions")
    fn = getattr(mod, name)
    # tree_copy's closure holds the lru_cache'd function; otherwise look for lru_cache'd functions in the module
    cands = [c.cell_contents for c in (fn.__closure__ or ())] + list(vars(mod).values())
    sizes = [v.cache_info().maxsize for v in cands if hasattr(v, "cache_info") and v.cache_info().maxsize]
    return max(sizes) if sizes else 1024


def _worker(args):
    dump, shard, nshards, sd, maxsteps, flood_budget = args
    import ahb
    ahb.configure()
    acc = {"viol": [], "n": 0, "floods": 0, "distinct": set(), "samples": []}
    rng = random.Random(sd * 7 + shard)
    idx = -1
    for st in dump_states(dump, shard, nshards):
        idx += 1
        hist = st["hist"]
        if len(hist) != maxsteps or hist[-1][0] != "parse":
            continue
        has_flood = any(a[0] == "flood" for a in hist)
        if has_flood:
            if acc["floods"] >= flood_budget or rng.random() > 0.02:
                continue
            acc["floods"] += 1
        for which in ("cond", "ahb", "condws", "condflat", "via_resolver"):
            try:
                replay_history(which, hist, acc)
            except MachineryError:
                raise
            except Exception as e:
                raise MachineryError(f"harness exception on history {hist}: {type(e).__name__}: {e}") from e
        acc["distinct"].add(hash(hist))
        if len(acc["samples"]) < 2 and has_flood:
            acc["samples"].append({"history": [list(a) for a in hist], "strings": COND, "every_parse_returned_the_pristine_tree": not acc["viol"]})
        if len(acc["viol"]) >= 20:
            break
    return acc


def run():
    res = Result(PID)
    work = Work(PID)
    thorough = tier() == "thorough"
    steps = 5
    strings = ["s1", "s2", "s3"] if thorough else ["s1", "s2"]
    cfg = work.path("cache.cfg")
    cfg.write_text("CONSTANTS\n Strings = {%s}\n MaxSteps = %d\n MaxFloods = 1\n CopyMode = \"deep\"\nINIT Init\nNEXT Next\nINVARIANT Pure\nINVARIANT CachePristine\n"
                   "CHECK_DEADLOCK FALSE\n" % (", ".join('"%s"' % s for s in strings), steps))
    dump = work.path("cache.dump")
    t = run_tlc("Cache", str(cfg), work, dump=dump, timeout=3000)
    res.add_tlc(f"Cache (required deep-copy design): Pure and CachePristine over all histories of <= {steps} parse/edit/flood steps on {len(strings)} strings", t)
    sens = []
    for mode in ("shallow", "kids_shared", "none_on_miss"):
        c2 = work.path(f"cache-{mode}.cfg")
        c2.write_text(cfg.read_text().replace('"deep"', f'"{mode}"'))
        t2 = run_tlc("Cache", str(c2), work, expect_violation=True, tag="cache-" + mode)
        sens.append({"CopyMode": mode, "violated": t2["violated_invariant"]})
    res.coverage["sensitivity"] = sens
    if any(s["violated"] is None for s in sens):
        raise MachineryError(f"the aliasing copy modes must violate the invariants (the spec can express the defect): {sens}")
    with mp.get_context("fork").Pool(16) as pool:
        outs = pool.map(_worker, [(str(dump), i, 16, seed(), steps, (60 if thorough else 12)) for i in range(16)])
    dump.unlink()
    for acc in outs:
        for d, c in acc["viol"]:
            res.violation(d, c)
        res.count("traces_validated_against_impl", acc["n"])
        res.count("histories_with_eviction", acc["floods"])
        res.merge_distinct(acc["distinct"])
        for s in acc["samples"]:
            res.sample(s)
    res.coverage["evaluations"] = res.coverage["traces_validated_against_impl"]
    # evaluation results are independent of the parse history: evaluate after all of the above and compare with a clean-cache evaluation
    import ahb
    ahb.configure()
    from ahbicht.expressions.requirement_constraint_expression_evaluation import requirement_constraint_evaluation

    async def ev(expr):
        ahb.set_cer_values(rc={1: "F", 2: "U", 3: "K", 4: "F"}, fc={901: True}, hints={})
        try:
            r = await requirement_constraint_evaluation(expr)
        except Exception as e:  # noqa: BLE001 - total: an evaluation that starts to fail after edits of returned trees is a difference, not a harness failure
            return ("raises", type(e).__name__, str(e)[:120])
        return (r.requirement_constraints_fulfilled, r.requirement_is_conditional, r.format_constraints_expression)

    for expr in instantiate({"e1": "[1]U[2]", "e2": "([3]O[4])[901]", "e3": "[1] U [2] X [4]"}).values() if False else ["[1]U[2]", "([3]O[4])[901]", "[1] U [2] X [4]"]:
        before = asyncio.run(ev(expr))
        t1 = parsers()["cond"][0](expr)
        apply_edit(cell(t1, "root"), "remove")
        apply_edit(cell(parsers()["cond"][0](expr), "k1"), "replace")
        after = asyncio.run(ev(expr))
        if before != after:
            res.violation(f"evaluation of {expr!r} changed from {before} to {after} after callers edited trees returned earlier", {"which": "eval", "expr": expr})
    res.coverage["cache_maxsize_read_from_code"] = {w: cache_maxsize(w) for w in ("cond", "ahb")}
    res.coverage["exhaustive"] = False
    res.coverage["rule"] = (f"one case = a history of {steps} steps (parse of one of {len(strings)} strings, in-place edit of the root list / first child's list / second "
                            "child's list of one of the two most recently returned trees by append / remove / replace, eviction of everything by flooding the "
                            "real cache with maxsize filler strings) ending in a parse; replayed on BOTH cached parsers from an empty cache; every parse of every "
                            "history must return the tree a fresh un-cached parse gives; all histories without eviction, a seeded sample with eviction")
    res.assumptions += ["model eviction = flooding the real lru_cache with cache_info().maxsize distinct strings (read at run time)",
                        "every history uses strings no earlier history used (same shapes, fresh key numbers), so it starts with cache misses without any access to the cache object"]
    return res.finish(work)


def replay(case):
    import ahb
    ahb.configure()
    if case.get("which") in ("cond", "ahb", "condws", "condflat", "via_resolver"):
        which = case["which"]
        acc = {"viol": [], "n": 0}
        replay_history(which, [tuple(a) for a in case["history"]], acc)
        for d, _ in acc["viol"]:
            print(d)
        return 1 if acc["viol"] else 0
    return run()


if __name__ == "__main__":
    main_wrapper(run)
