"""C10 - resolving packages and time conditions is exact bracketed substitution (Resolve.tla: substitution lemma)."""
import asyncio
import multiprocessing as mp
import random

import condparse as CP
from common import MachineryError, Result, Work, dump_states, main_wrapper, run_tlc, seed, tier, to_tla

PID = "C10"
TABLES = [
    {"p1": ("k2", "U", "k3"), "p2": ("p1", "O", "t3"), "pz": ()},          # package inside a package (stays), time condition inside a package
    {"p1": ("k2",), "p2": (), "pz": ()},                                    # p2 unknown to the resolver
    {"p1": ("k2", "k3"), "p2": ("(", "k2", "X", "k3", ")", "O", "t1"), "pz": ()},
    {"p1": ("t3",), "p2": ("k2", "O", "k3", "U", "k1"), "pz": ()},
]
KEYNUM = {"k1": "1", "k2": "2", "k3": "3", "k932": "932", "k934": "934", "k492": "492", "k493": "493"}


def render(tokens, rng):
    out = []
    names = []
    for t in tokens:
        if t in KEYNUM:
            out.append(f"[{KEYNUM[t]}]")
            names.append(t)
        elif t in ("p1", "p2", "pz"):
            rep = rng.choice(["", "", "0..1", "1..5", " 2..9"]) if rng else ""
            num = t[1] if t != "pz" else (rng.choice(["01", "001"]) if rng else "01")     # pz: p1's number with leading zeros = another key
            out.append(f"[{num}P{rep}]")
            names.append(t)
        elif t in ("t1", "t2", "t3"):
            out.append(f"[UB{t[1]}]")
            names.append(t)
        elif t in ("(", ")"):
            out.append(t)
        else:
            out.append(rng.choice(CP.SPELL[t]) if rng else t)
    sep = (lambda: rng.choice(["", "", " ", "  ", "\t"])) if rng else (lambda: "")
    return "".join(x + sep() for x in out).rstrip() if out else "", names


def leaf_name(kind, text):
    if kind == "key":
        return "k" + text
    if kind == "pkg":
        num = text.split("P")[0]
        return "pz" if num.startswith("0") else "p" + num
    return "t" + text[2]


def spec_tree_numbered(t):
    """spec tree with token names as leaves -> (numbered n-ary tree, [names])"""
    names = []

    def go(x):
        if x[0] == "leaf":
            names.append(x[1][0])
            return ("leaf", (len(names),))
        return (x[0], tuple(go(c) for c in x[1]))

    return go(t), names


def abstract_tokens(tokens):
    return ["a" if t not in ("(", ")", "U", "X", "O") else t for t in tokens]


def canon_real(tree, tokens_for_spans):
    import ahb
    t, texts = CP.canon(ahb.cond_tree_binary(tree), CP.bracket_spans(abstract_tokens(tokens_for_spans)))
    return t, [leaf_name(k, x) for k, x in texts]


class Acc:
    def __init__(self):
        self.viol, self.samples, self.counts, self.distinct = [], [], {}, set()

    def c(self, k, n=1):
        self.counts[k] = self.counts.get(k, 0) + n

    def v(self, d, case):
        if len(self.viol) < 40:
            self.viol.append((d, case))


async def check_state(st, table, idx, sd, acc):
    import ahb
    from ahbicht.expressions.condition_expression_parser import parse_condition_expression_to_tree
    from ahbicht.expressions.expression_resolver import expand_packages, expand_time_conditions, parse_expression_including_unresolved_subexpressions
    o = st["obs"]
    if not o["complete"]:
        return
    rng = random.Random(sd * 1000003 + idx)
    ts = list(st["ts"])
    expr, _ = render(ts, rng)
    pk = {f"{p[1]}P": render(list(body), rng)[0] for p, body in table.items() if body and p != "pz"}
    ahb.set_cer_values(rc={}, fc={}, hints={}, packages=pk, hardcoded=(idx % 3 == 0))       # (every third state through the hardcoded evaluators)
    case = {"expr": expr, "tokens": ts, "packages": pk}
    acc.c("resolutions")
    if sum(1 for t in ts if t[0] in "pt") >= 1 and len(ts) >= 3:
        acc.distinct.add(hash((tuple(ts), tuple(sorted(pk.items())))))
    wrap = rng.choice(["", "", "Muss ", "X ", "kann "])
    try:
        res = await parse_expression_including_unresolved_subexpressions(wrap + expr, resolve_packages=True, replace_time_conditions=True)
        got_err = None
    except NotImplementedError:
        got_err = "NotImplementedError"
    except BaseException as e:  # pylint:disable=broad-except
        acc.v(f"resolving {wrap + expr!r} with {pk} raised {type(e).__name__}: {e}", case)
        return
    if not o["resolvable"]:
        if got_err != "NotImplementedError":
            acc.v(f"{wrap + expr!r} uses a package unknown to the resolver ({pk}) but resolving did not abort with NotImplementedError", case)
        return
    if got_err:
        acc.v(f"resolving {wrap + expr!r} with {pk} raised NotImplementedError although every package is known", case)
        return
    if wrap:
        res = res.children[0].children[1]
    subst = list(o["subst"])
    spec_tree, spec_names = spec_tree_numbered(o["tree"])
    real_tree, real_names = canon_real(res, subst)
    if (real_tree, real_names) != (spec_tree, spec_names):
        acc.v(f"{expr!r} with {pk} resolves to {real_tree} over {real_names}; bracketed textual substitution gives {spec_tree} over {spec_names}", case)
        return
    # the same through the real parser on the substituted TEXT
    text, _ = render(subst, None)
    direct = parse_condition_expression_to_tree(text)
    if ahb.tree_shape(direct) != ahb.tree_shape(res):
        dt, dn = canon_real(direct, subst)
        if (dt, dn) == (real_tree, real_names):
            acc.c("grouping_only_differences")
        else:
            acc.v(f"{expr!r} with {pk}: resolved tree differs from the parse of the substituted text {text!r}", case)
            return
    # the two public steps separately
    base = parse_condition_expression_to_tree(expr)
    try:
        kept = parse_condition_expression_to_tree(expr)       # callers keep a parsed tree and expand it for every message: one level of substitution each time
        await expand_packages(kept)
        expand_time_conditions(kept)
        only_p = await expand_packages(kept)
        pt, pn = spec_tree_numbered(o["pkgtree"])
        pkg_subst = []
        for t in ts:
            pkg_subst += (["("] + list(table[t]) + [")"]) if t in table and table[t] else [t]
        if canon_real(only_p, pkg_subst) != (pt, pn):
            acc.v(f"expand_packages on {expr!r} with {pk} gives {canon_real(only_p, pkg_subst)}, substitution gives {(pt, pn)}", case)
        only_t = expand_time_conditions(base)
        tt, tn = spec_tree_numbered(o["timetree"])
        time_subst = []
        for t in ts:
            time_subst += {"t1": ["k932"], "t2": ["k934"], "t3": ["(", "k932", "k492", "X", "k934", "k493", ")"]}.get(t, [t])
        if canon_real(only_t, time_subst) != (tt, tn):
            acc.v(f"expand_time_conditions on {expr!r} gives {canon_real(only_t, time_subst)}, substitution gives {(tt, tn)}", case)
    except BaseException as e:  # pylint:disable=broad-except
        acc.v(f"expand_packages / expand_time_conditions on {expr!r} raised {type(e).__name__}: {e}", case)
    if len(acc.samples) < 3 and len(ts) >= 4 and rng.random() < 0.01:
        acc.samples.append({"expr": wrap + expr, "packages": pk, "substituted_text": text, "resolved_grouping": CP.tree_to_json(real_tree), "leaves": real_names})


def _worker(args):
    dump, table, shard, nshards, sd, sample_from, stride = args
    import ahb
    ahb.configure()
    acc = Acc()

    async def go():
        idx = -1
        for st in dump_states(dump, shard, nshards):
            idx += 1
            if stride > 1 and len(st.get("ts", ())) >= sample_from and (idx + sd) % stride:
                continue            # thorough tier: TLC checks the lemma on all of them; the replay takes a seeded 1/stride sample of the longest ones
            try:
                await check_state(st, table, idx * nshards + shard, sd, acc)
            except Exception as e:
                raise MachineryError(f"harness exception on {st}: {type(e).__name__}: {e}") from e
            if len(acc.viol) >= 40:
                break

    asyncio.run(go())
    return acc.viol, acc.samples, acc.counts, acc.distinct


def spec_tree_json(tree, names):
    """numbered n-ary tree + leaf names -> the JSON form of a Resolve.tla tree (token names as leaves)"""
    if tree[0] == "leaf":
        return ["leaf", [names[tree[1][0] - 1]]]
    return [tree[0], [spec_tree_json(c, names) for c in tree[1]]]


def long_expressions(res, work, n):
    """random expressions with 8-14 operands, most of them abbreviations (so that more than eight package occurrences meet in one expression), resolved by
    the real code and decided by TLC against SubstTree / the substitution lemma (ResolveTrace.tla)"""
    import ahb
    ahb.configure()
    from common import validate_traces
    from ahbicht.expressions.expression_resolver import parse_expression_including_unresolved_subexpressions
    rng = random.Random(seed() * 431 + 10)
    for ti, table in enumerate(TABLES[:3]):
        mod = work.path(f"MC_ResolveTrace{ti}.tla")
        rows = " @@ ".join(f"({to_tla(p)} :> {to_tla(tuple(b))})" for p, b in table.items())
        mod.write_text(f"---- MODULE MC_ResolveTrace{ti} ----\nEXTENDS ResolveTrace\nMCOperands == {{}}\nMCTable == {rows}\n====\n")
        cfg = work.path(f"MC_ResolveTrace{ti}.cfg")
        cfg.write_text("CONSTANTS\n MaxTok = 0\n Operands <- MCOperands\n Table <- MCTable\nINIT TInit\nNEXT TCheck\nCONSTRAINT Accepted\nCHECK_DEADLOCK FALSE\n")
        traces = []

        async def go():
            for tid in range(1, n // 3 + 2):
                toks = CP.random_tokens(rng, rng.randint(8, 13), max_depth=3)
                heavy = rng.random() < 0.5
                ts = [(rng.choice(["p1", "p2", "p1", "p2", "t3", "t1"]) if heavy else rng.choice(["k1", "k2", "p1", "p2", "t1", "t2", "t3", "pz" if rng.random() < 0.2 else "k3"]))
                      if t == "a" else t for t in toks]
                expr, _ = render(ts, rng)
                pk = {f"{p[1]}P": render(list(body), rng)[0] for p, body in table.items() if body and p != "pz"}
                ahb.set_cer_values(rc={}, fc={}, hints={}, packages=pk)
                wrap = rng.choice(["", "", "Muss "])
                try:
                    r = await parse_expression_including_unresolved_subexpressions(wrap + expr, resolve_packages=True, replace_time_conditions=True)
                    if wrap:
                        r = r.children[0].children[1]
                    subst = []
                    for t in ts:
                        subst += (["("] + list(table[t]) + [")"]) if t in table and table[t] else [t]
                    subst2 = []
                    for t in subst:
                        subst2 += {"t1": ["k932"], "t2": ["k934"], "t3": ["(", "k932", "k492", "X", "k934", "k493", ")"]}.get(t, [t])
                    tree, names = canon_real(r, subst2)
                    logged = spec_tree_json(tree, names)
                except NotImplementedError:
                    logged = ["unresolvable", []]
                except BaseException as e:  # pylint:disable=broad-except
                    res.violation(f"resolving {wrap + expr!r} with {pk} raised {type(e).__name__}: {e}", {"expr": wrap + expr, "packages": pk})
                    continue
                traces.append({"id": tid, "ts": ts, "tree": logged, "expr": wrap + expr, "packages": pk})

        asyncio.run(go())
        slim = [{"id": t["id"], "ts": t["ts"], "tree": t["tree"]} for t in traces]
        t2, acc, diag = validate_traces(str(mod), str(cfg), slim, work, tag=f"resolvetrace{ti}")
        res.add_tlc(f"ResolveTrace: real resolutions of {len(traces)} random expressions with 8-13 operands (up to 13 package occurrences) under table {ti}", t2)
        res.count("long_expressions", len(traces))
        for t in traces:
            res.distinct(("long", t["expr"], ti))
            if t["id"] not in acc:
                at, exp = diag.get(t["id"], (0, ()))
                res.violation(f"{t['expr']!r} with {t['packages']} resolves to {t['tree']}; bracketed textual substitution gives {exp}",
                              {"expr": t["expr"], "packages": t["packages"]})


def run():
    from c02 import merge
    res = Result(PID)
    work = Work(PID)
    thorough = tier() == "thorough"
    n = 6 if thorough else 5
    ops = ["k1", "p1", "p2", "t1", "t3"] if not thorough else ["k1", "p1", "p2", "t1", "t2", "t3"]
    dumps = []
    for i, table in enumerate(TABLES):
        ops_i = ops + (["pz"] if i == 0 else [])
        mod = work.path(f"MC_Resolve{i}.tla")
        rows = " @@ ".join(f"({to_tla(p)} :> {to_tla(tuple(b))})" for p, b in table.items())
        mod.write_text(f"---- MODULE MC_Resolve{i} ----\nEXTENDS Resolve\nMCOperands == {to_tla(set(ops_i))}\nMCTable == {rows}\n====\n")
        cfg = work.path(f"MC_Resolve{i}.cfg")
        cfg.write_text(f"CONSTANTS\n MaxTok = {n}\n Operands <- MCOperands\n Table <- MCTable\nINIT MCInit\nNEXT MCNext\nINVARIANT SubstitutionLemma\n"
                       "INVARIANT SubstWellFormed\nINVARIANT PkgLemma\nINVARIANT TimeLemma\nCHECK_DEADLOCK FALSE\n")
        dump = work.path(f"r{i}.dump")
        t = run_tlc(str(mod), str(cfg), work, dump=dump, timeout=3000, tag=f"resolve{i}")
        res.add_tlc(f"Resolve: substitution lemma on every expression <= {n} tokens over {ops_i} with package table {table}", t)
        dumps.append((str(dump), table))
    # one pool for all tables: every worker process (one long-lived resolver) sees several different package tables in turn
    with mp.get_context("fork").Pool(16) as pool:
        merge(res, pool.map(_worker, [(d, table, k, 16, seed(), n, (5 if thorough else 1)) for k in range(16) for d, table in dumps], chunksize=1))
    long_expressions(res, work, 600 if thorough else 80)
    res.coverage["traces_validated_against_impl"] = res.coverage.get("resolutions", 0) + res.coverage.get("long_expressions", 0)
    res.coverage["evaluations"] = res.coverage.get("resolutions", 0)
    res.coverage["exhaustive"] = True
    res.coverage["replayed"] = f"every state up to {n - 1 if thorough else n} tokens" + (f", a seeded 1/5 sample of the states with {n} tokens" if thorough else "")
    res.coverage["rule"] = (f"every well-formed expression <= {n} tokens over a key, two packages and time conditions, for 4 package tables (package inside a package, "
                            "time condition inside a package, juxtaposition and brackets inside a package, an unknown package): the tree of the real resolver "
                            "(plain or wrapped in an AHB expression; packages with/without repeatability) in n-ary normal form must equal the spec's substituted "
                            "tree, its lark shape the parse of the substituted text; expand_packages and expand_time_conditions separately; an unknown package "
                            "must abort with NotImplementedError; non-trivial = at least 3 tokens with an abbreviation")
    res.assumptions += ["a difference between the resolved tree and the parse of the substituted text that vanishes in n-ary normal form is counted "
                        "(grouping_only_differences), not reported (DESIGN 6.1)"]
    return res.finish(work)


def replay(case):
    import ahb
    ahb.configure()
    from ahbicht.expressions.expression_resolver import parse_expression_including_unresolved_subexpressions
    ahb.set_cer_values(rc={}, fc={}, hints={}, packages=case["packages"])
    try:
        r = asyncio.run(parse_expression_including_unresolved_subexpressions(case["expr"], resolve_packages=True, replace_time_conditions=True))
        print(case["expr"], case["packages"], "->", r)
    except BaseException as e:  # pylint:disable=broad-except
        print(case["expr"], case["packages"], "raised", type(e).__name__, e)
    # the documented tree of the case lives in the specification's state space: the verdict comes from re-running the check
    print("re-deciding with the quick tier of the check")
    return run()


if __name__ == "__main__":
    main_wrapper(run)
