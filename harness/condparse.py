"""Shared by C01/C02/C10/C18: rendering of abstract token sequences of CondParser.tla into concrete condition expressions
(operand kinds, operator spellings, whitespace, redundant brackets), and the projection of real lark trees into the n-ary
normal form the specification uses."""
import random

SPELL = {"U": ["U", "u", "∧"], "X": ["X", "x", "⊻"], "O": ["O", "o", "∨"]}
WS = ["", "", "", " ", " ", "  ", "\t", "\n", "\r\n", "\f", " \n "]
KEY_NUMBERS = [1, 2, 7, 42, 499, 500, 501, 900, 901, 950, 999, 2000, 2499, 0, 1000, 1999, 2500, 12345]


def operand_text(rng, i, kinds=("key", "key", "key", "pkg", "rep", "time"), cluster=None):
    """concrete operand for operand number i: returns (string, canonical leaf text). With `cluster` all keys of the expression are neighbours of one
    number at a digit-length or range boundary (8..12, 98..102, 998..1002, ...), so that keys are numerically close but textually different."""
    kind = rng.choice(kinds)
    inner_ws = rng.choice(["", "", "", " ", "\t"])
    if kind == "key":
        if cluster is not None:
            n = max(0, cluster + rng.randint(-2, 3))
        else:
            n = rng.choice(KEY_NUMBERS) if rng.random() < 0.4 else rng.randint(1, 2600)
        txt = str(n)
        if rng.random() < 0.08:
            txt = "0" * rng.randint(1, 2) + txt
        return f"[{inner_ws}{txt}{inner_ws}]", ("key", txt)
    if kind == "pkg":
        n = rng.randint(0, 999)
        return f"[{inner_ws}{n}P{inner_ws}]", ("pkg", f"{n}P")
    if kind == "rep":
        n = rng.randint(0, 999)
        a, b = rng.choice([(0, 1), (1, 1), (0, 10), (3, 5), (12, 99), (0, 100), (7, 7), (1, 2)])
        mid = rng.choice(["", "", " "])
        return f"[{inner_ws}{n}P{mid}{a}..{b}{inner_ws}]", ("pkg", f"{n}P {a}..{b}")
    if kind == "badrep":
        # a repeatability the grammar accepts but that cannot be one (n > m), on a package the resolver of C02 knows: well-formed for the
        # parsers, SyntaxError (never another exception) once packages are resolved
        n = rng.choice([1, 2, 25])
        a, b = rng.choice([(7, 1), (5, 3), (99, 12), (10, 9)])
        return f"[{inner_ws}{n}P{a}..{b}{inner_ws}]", ("pkg", f"{n}P {a}..{b}")
    n = rng.randint(1, 3)
    return f"[{inner_ws}UB{n}{inner_ws}]", ("time", f"UB{n}")


def render_tokens(toks, rng, kinds=("key", "key", "key", "pkg", "rep", "time"), redundant=0.0, plain=False):
    """-> (string, [leaf texts in order]). plain=True: no whitespace, upper-case letters, keys only"""
    out = []
    leaves = []
    n = 0
    wrap_whole = (not plain) and rng.random() < redundant
    cluster = None if plain or rng.random() < 0.6 else rng.choice([9, 10, 99, 100, 999, 1000, 499, 500, 900, 2000])
    for t in toks:
        if t == "a":
            n += 1
            if plain:
                s, leaf = f"[{n}]", ("key", str(n))
            else:
                s, leaf = operand_text(rng, n, kinds, cluster)
            if not plain and rng.random() < redundant:
                s = "(" + rng.choice(["", " "]) + s + rng.choice(["", " "]) + ")"
                if rng.random() < 0.3:
                    s = "(" + s + ")"
            leaves.append(leaf)
            out.append(s)
        elif t in ("(", ")"):
            out.append(t)
        else:
            out.append(t if plain else rng.choice(SPELL[t]))
    if plain:
        s = "".join(out)
    else:
        s = rng.choice(WS[:4]) + "".join(x + rng.choice(WS) for x in out[:-1]) + out[-1] + rng.choice(WS[:5]) if out else ""
    if wrap_whole and toks:
        s = "(" + s + ")"
    return s, leaves


def bracket_spans(toks):
    """sets of operand numbers enclosed by each bracket pair of the abstract token sequence"""
    spans = set()
    stack = []
    n = 0
    for t in toks:
        if t == "a":
            n += 1
        elif t == "(":
            stack.append(n)
        elif t == ")":
            if stack:
                first = stack.pop()
                spans.add(frozenset(range(first + 1, n + 1)))
    return spans


def canon(binary, spans):
    """real tree ('leaf', kind, text) | (op, l, r)  ->  (n-ary normal form as in CondParser.tla, [leaf texts]).
    A same-operator child is merged into its parent unless exactly its operands are enclosed by a bracket pair."""
    texts = []

    def go(t):
        if t[0] == "leaf":
            texts.append((t[1], t[2]))
            n = len(texts)
            return ("leaf", (n,)), frozenset({n})
        (l, ls), (r, rs) = go(t[1]), go(t[2])
        ch = []
        for c, s in ((l, ls), (r, rs)):
            if c[0] == t[0] and s not in spans:
                ch.extend(c[1])
            else:
                ch.append(c)
        return (t[0], tuple(ch)), ls | rs

    tree, _ = go(binary)
    return tree, texts


def tree_to_json(t):
    if t[0] == "leaf":
        return ["leaf", [t[1][0]]]
    return [t[0], [tree_to_json(c) for c in t[1]]]


def random_tokens(rng, n_operands, max_depth=4):
    """random well-formed token sequence with about n_operands operands"""
    def expr(n, depth):
        if n == 1:
            if depth < max_depth and rng.random() < 0.1:
                return ["("] + expr(1, depth + 1) + [")"]
            return ["a"]
        k = rng.randint(1, n - 1)
        op = rng.choice(["U", "U", "O", "X", None])
        l, r = expr(k, depth), expr(n - k, depth)
        if rng.random() < 0.35 and depth < max_depth:
            l = ["("] + l + [")"]
        if rng.random() < 0.35 and depth < max_depth:
            r = ["("] + r + [")"]
        return l + ([op] if op else []) + r
    return expr(n_operands, 0)
