"""C04 - requirement-constraint evaluation = documented compositional semantics (Eval.tla)."""
import evalcheck as E
from common import Result, Work, main_wrapper, run_tlc, tier

PID = "C04"
INV = ["TypeOK", "MachineAgreesWithDen", "NeutralIffNoRC", "ValidityIsStructural"]


def run():
    res = Result(PID)
    work = Work(PID)
    thorough = tier() == "thorough"
    n = 4 if thorough else 3
    cfg = E.write_cfg(work, "eval.cfg", n, False, INV, hints=(501, 502) if thorough else (501,))
    dump = work.path("eval.dump")
    t = run_tlc("Eval", cfg, work, dump=dump)
    res.add_tlc(f"Eval: machine = Den, all programs <= {n} leaves x all assignments", t)
    E.replay_dump("C04", dump, res)
    dump.unlink()
    if thorough:
        cfg5 = E.write_cfg(work, "eval5.cfg", 5, False, INV)
        t5 = run_tlc("Eval", cfg5, work, timeout=3000)
        res.add_tlc("Eval: machine = Den, all programs <= 5 leaves (spec level only)", t5)
    E.trace_validation(res, work, n_random=4000 if thorough else 600)
    E.unit_test_suite_traces(res, work, "rc")
    E.replay_simulated("C04", res, work, 4000 if thorough else 400)
    res.coverage["exhaustive"] = True
    res.coverage["rule"] = (f"every postfix program of Eval.tla with <= {n} leaves (2 RC keys, hint keys, 2 FC keys, juxtaposition with a "
                            "single FC key) under every assignment in {F,U,K}^2 is one case; non-trivial = at least one composition; "
                            "distinct by (tree, assignment)")
    res.assumptions += ["rendering brackets every composite operand, so same-operator grouping never matters",
                        "hint texts are compared as key sequences and differences are counted, not judged (no property fixes them)"]
    return res.finish(work)


def replay(case):
    import asyncio
    import ahb
    ahb.configure()
    E._KM.clear(); E._KM_INV.clear()
    for k, v in (case.get("keymap") or {}).items():
        E._KM[int(k)] = v
        E._KM_INV[v] = int(k)
    got = asyncio.run(E.eval_real(case["expr"], {int(k): v for k, v in case["asg"].items()}))
    print("expression:", case["expr"], "assignment:", case["asg"])
    print("code:", got, "expected:", case.get("expected"), "spec error:", case.get("spec_err"))
    exp = tuple(case["expected"]) if case.get("expected") else None
    ok = (got["err"] == case.get("spec_err")) and (exp is None or got.get("outcome") == exp)
    return 0 if ok else 1


if __name__ == "__main__":
    main_wrapper(run)
