"""Entry point used by /verif/check: dispatches to harness/c<NN>.py (run or replay)."""
import importlib
import json
import os
import sys

sys.path.insert(0, os.path.dirname(os.path.abspath(__file__)))
from common import main_wrapper


def main():
    pid = sys.argv[1].upper()
    mod = importlib.import_module("c" + pid[1:].lower())
    rp = os.environ.get("VERIF_REPLAY")
    if rp:
        data = json.loads(open(rp).read())
        if data.get("property") != pid:
            print(f"replay file is for {data.get('property')}, not {pid}", file=sys.stderr)
            return 2
        if "seed" in data:
            os.environ["VERIF_SEED"] = str(data["seed"])
        return mod.replay(data["case"])
    return mod.run()


if __name__ == "__main__":
    main_wrapper(main)
