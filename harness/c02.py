"""C02 - the three parsers accept exactly the documented language; everything else is a SyntaxError
(Lexer.tla at character level, AhbSplit.tla + CondLang.tla at token level, LexerTrace.tla for mutated long expressions)."""
import asyncio
import multiprocessing as mp
import random

import ahbsplit as AS
import condparse as CP
from common import MachineryError, Result, Work, dump_states, main_wrapper, run_tlc, seed, tier, validate_traces

PID = "C02"
REPS = {"[": ["["], "]": ["]"], "(": ["("], ")": [")"], "0": ["0"], "d13": ["1", "2", "3"], "d49": ["4", "5", "6", "7", "8", "9"],
        "P": ["P"], "B": ["B"], ".": ["."], "U": ["U"], "u": ["u", "∧"], "O": ["O", "o", "∨"], "X": ["X", "x", "⊻"],
        "w": [" ", "\t", "\n", "\r", "\f"],
        "bad": ["p", "b", "a", "#", "_", "-", ",", "{", "}", " ", "\x0b", " ", "١", "Ｕ", "é", "\\", "'", "!", "?", "<",
                ":", "^", "|", "&", "+", "*", "/", "e", "E", "Z", "y", "∨́"[1], "\x00", "\x1c", " ", "　", "²"]}
CLASS_OF = {}
for _c, _reps in REPS.items():
    if _c != "bad":
        for _r in _reps:
            CLASS_OF[_r] = _c
ALL_CLASSES = list(REPS)


def classify(s):
    return [CLASS_OF.get(ch, "bad") for ch in s]


def render_classes(cls, rng):
    return "".join(rng.choice(REPS[c]) for c in cls)


def parse_cond(s):
    from ahbicht.expressions.condition_expression_parser import parse_condition_expression_to_tree
    try:
        parse_condition_expression_to_tree(s)
        return "accept"
    except SyntaxError:
        return "reject"
    except BaseException as e:  # pylint:disable=broad-except
        return "exception:" + type(e).__name__


async def parse_resolver(s):
    from ahbicht.expressions.expression_resolver import parse_expression_including_unresolved_subexpressions
    try:
        return "accept", await parse_expression_including_unresolved_subexpressions(s, resolve_packages=False, replace_time_conditions=False)
    except SyntaxError:
        return "reject", None
    except BaseException as e:  # pylint:disable=broad-except
        return "exception:" + type(e).__name__, None


async def resolve_with_packages(s):
    """the resolver with package resolution switched on: a tree, SyntaxError, or NotImplementedError for a package the resolver does not know (C10)"""
    import ahb
    from ahbicht.expressions.expression_resolver import parse_expression_including_unresolved_subexpressions
    ahb.set_cer_values(packages={"1P": "[1]", "2P": "[2] U [3]", "25P": "[4]"})
    try:
        await parse_expression_including_unresolved_subexpressions(s, resolve_packages=True, replace_time_conditions=True)
        return "accept"
    except SyntaxError:
        return "reject"
    except NotImplementedError:
        return "unknown-package"
    except BaseException as e:  # pylint:disable=broad-except
        return "exception:" + type(e).__name__


def parse_ahb_only(s):
    from ahbicht.expressions.ahb_expression_parser import parse_ahb_expression_to_single_requirement_indicator_expressions
    try:
        return "accept", parse_ahb_expression_to_single_requirement_indicator_expressions(s)
    except SyntaxError:
        return "reject", None
    except BaseException as e:  # pylint:disable=broad-except
        return "exception:" + type(e).__name__, None


async def validity(s):
    import ahb
    from ahbicht.content_evaluation import is_valid_expression
    # history: the verdict for s must not depend on what was asked before - in particular not on strings that differ from s only in white space
    # or in the case of letters (such strings are asked first; their own verdicts are not judged here)
    for other in {"".join(s.split()), " ".join(s.split()), s.upper()} - {s}:
        try:
            await is_valid_expression(other, ahb.set_cer)
        except BaseException:  # pylint:disable=broad-except  # noqa: BLE001
            pass
    try:
        r = await is_valid_expression(s, ahb.set_cer)
        return "returned", r
    except BaseException as e:  # pylint:disable=broad-except
        return "exception:" + type(e).__name__, None


class Acc:
    def __init__(self):
        self.viol, self.samples, self.counts, self.distinct = [], [], {}, set()

    def c(self, k, n=1):
        self.counts[k] = self.counts.get(k, 0) + n

    def v(self, d, case):
        if len(self.viol) < 60:
            self.viol.append((d, case))


async def expect_reject_everywhere(s, acc, why, ahb_level=True):
    """s is outside the documented language: condition parser and resolver raise SyntaxError, validity check says (False, msg)"""
    case = {"string": s, "expected": "reject", "why": why}
    if ahb_level is False:
        v = parse_cond(s)
        acc.c("parses")
        if v != "reject":
            acc.v(f"condition parser on {s!r} ({why}): {v}, expected SyntaxError", dict(case, entry="condition"))
    v, _ = await parse_resolver(s)
    acc.c("parses")
    if v != "reject":
        acc.v(f"resolver on {s!r} ({why}): {v}, expected SyntaxError", dict(case, entry="resolver"))
    a, _ = parse_ahb_only(s)
    acc.c("parses")
    if a.startswith("exception"):
        acc.v(f"AHB parser on {s!r}: {a}, only SyntaxError may escape", dict(case, entry="ahb"))
    k, r = await validity(s)
    acc.c("validity_checks")
    if k != "returned" or r[0] is not False or not r[1]:
        acc.v(f"is_valid_expression({s!r}) ({why}): {k} {r}, expected (False, message)", dict(case, entry="validity"))


# ------------------------------------------------------------------ A. character level (Lexer.tla)
async def lexer_state(st, idx, sd, acc, n_dead):
    rng = random.Random(sd * 1000003 + idx)
    cls = list(st["chars"])
    s = render_classes(cls, rng)
    acc.c("states_replayed")
    if len(cls) >= 3:
        acc.distinct.add(hash(tuple(cls)))
    exp = "accept" if st["obs"]["acc"] else "reject"
    got = parse_cond(s)
    acc.c("parses")
    case = {"string": s, "classes": cls, "expected": exp}
    if got != exp:
        acc.v(f"condition parser on {s!r} (classes {' '.join(cls)}): {got}, the documented language says {exp}", dict(case, entry="condition"))
    ahb_reading = s[:1] in "UuOoXx" and s[:1] != ""
    if not ahb_reading:
        v, _ = await parse_resolver(s)
        acc.c("parses")
        if v != exp:
            acc.v(f"resolver on {s!r}: {v}, the documented language says {exp}", dict(case, entry="resolver"))
        if exp == "accept":
            w = await resolve_with_packages(s)
            acc.c("parses")
            if w.startswith("exception"):
                acc.v(f"resolver with resolve_packages=True on {s!r}: {w}; only SyntaxError (or NotImplementedError for an unknown package) may escape",
                      dict(case, entry="resolver+packages"))
        if exp == "reject" and idx % 4 == 0:
            k, r = await validity(s)
            acc.c("validity_checks")
            if k != "returned" or r[0] is not False or not r[1]:
                acc.v(f"is_valid_expression({s!r}): {k} {r}, expected (False, message)", dict(case, entry="validity"))
    # the same condition text behind an indicator: an AHB expression whose condition part is exactly this string
    if idx % 2 == 0 and s.strip(" \t\n\r\f") != "":      # (whitespace after a bare indicator is not asserted either way)
        word = rng.choice(["Muss", "m", "Soll ", "K", "X", "u "])
        s3 = word + rng.choice(["", " "]) + s
        if not (word.strip() in ("X", "u") and s[:1] in "UuOoXx"):
            v3, _ = await parse_resolver(s3)
            acc.c("parses")
            exp3 = exp
            if v3 != exp3:
                acc.v(f"resolver on {s3!r}: {v3}; the condition part {s!r} is {'well-formed' if exp == 'accept' else 'not a well-formed condition expression'}",
                      {"string": s3, "expected": exp3, "entry": "resolver"})
    dead = sorted(set(ALL_CLASSES) - set(st["obs"]["en"]))
    rng.shuffle(dead)
    closing = ("]" if st["mode"] != "out" else "") + ")" * st["depth"]      # what would complete the prefix if the refused character were allowed
    for c in dead[:n_dead]:
        suffix = render_classes([rng.choice(ALL_CLASSES[:15]) for _ in range(rng.randint(0, 4))], rng)
        bad = s + rng.choice(REPS[c])
        for s2 in {bad, bad + suffix, bad + closing, bad + rng.choice(["1", "2"]) + closing}:
            g2 = parse_cond(s2)
            acc.c("parses")
            if g2 != "reject":
                acc.v(f"condition parser on {s2!r}: {g2}; after {s!r} a character of class '{c}' cannot be continued to a well-formed expression",
                      {"string": s2, "expected": "reject", "entry": "condition"})
        if idx % 3 == 0:
            # the same near miss as the condition part of an AHB expression
            for s2 in (bad + closing, bad + rng.choice(["1", "3"]) + closing):
                s3 = rng.choice(["Muss ", "M", "Soll ", "k "]) + s2
                v3, _ = await parse_resolver(s3)
                acc.c("parses")
                if v3 != "reject":
                    acc.v(f"resolver on {s3!r}: {v3}; its condition part is not a well-formed condition expression (class '{c}' cannot follow {s!r})",
                          {"string": s3, "expected": "reject", "entry": "resolver"})
                elif idx % 9 == 0:
                    k, r = await validity(s3)
                    acc.c("validity_checks")
                    if k != "returned" or r[0] is not False or not r[1]:
                        acc.v(f"is_valid_expression({s3!r}): {k} {r}, expected (False, message)", {"string": s3, "expected": "reject", "entry": "validity"})
    if len(acc.samples) < 3 and exp == "accept" and len(cls) >= 6 and rng.random() < 0.02:
        acc.samples.append({"level": "characters", "classes": " ".join(cls), "string": s, "spec": exp, "code": got})


# ------------------------------------------------------------------ B. token level with indicators (AhbSplit.tla)
async def ahb_state(st, idx, sd, acc):
    rng = random.Random(sd * 1000003 + idx)
    toks = list(st["consumed"])
    if not toks:
        return
    s, info = AS.render(toks, rng, kinds=("key", "key", "pkg", "rep", "badrep", "time"))
    acc.c("states_replayed")
    if len(toks) >= 3:
        acc.distinct.add(hash(("ahb",) + tuple(toks)))
    case = {"string": s, "tokens": toks}
    if st["obs"]["acc"]:
        v, tree = await parse_resolver(s)
        acc.c("parses")
        if v != "accept":
            acc.v(f"resolver on {s!r} (tokens {' '.join(toks)}): {v}; it is one of the documented forms", dict(case, entry="resolver", expected="accept"))
        else:
            proj = AS.project(tree, info)
            if proj[0] == "ahb":
                got = tuple((p[0], p[1]) for p in proj[1])
                exp = tuple((p[0], p[1]) for p in st["obs"]["parts"])
                if got != exp:
                    acc.v(f"resolver splits {s!r} into {got}, the documented split is {exp}", dict(case, entry="resolver", expected=exp))
                for p, (_, _, leaves) in zip(proj[1], info):
                    if p[2] != leaves and p[1] != ():
                        acc.v(f"resolver on {s!r}: operands {p[2]} differ from the written {leaves}", dict(case, entry="resolver"))
            else:
                if st["obs"]["parts"] != () or proj[1] != st["obs"]["cond"]:
                    acc.v(f"resolver reads {s!r} as the condition expression {proj[1]}, the documented reading is "
                          f"{st['obs']['parts'] or st['obs']['cond']}", dict(case, entry="resolver"))
        w = await resolve_with_packages(s)
        acc.c("parses")
        if w.startswith("exception"):
            acc.v(f"resolver with resolve_packages=True on {s!r}: {w}; only SyntaxError (or NotImplementedError for an unknown package) may escape",
                  dict(case, entry="resolver+packages"))
        a, atree = parse_ahb_only(s)
        acc.c("parses")
        if a.startswith("exception"):
            acc.v(f"AHB parser on {s!r}: {a}", dict(case, entry="ahb"))
        elif st["obs"]["parts"] != ():
            if a != "accept":
                acc.v(f"AHB parser rejects {s!r}, one of the documented forms", dict(case, entry="ahb", expected="accept"))
            elif len(atree.children) != len(st["obs"]["parts"]):
                acc.v(f"AHB parser splits {s!r} into {len(atree.children)} parts, documented: {len(st['obs']['parts'])}", dict(case, entry="ahb"))
        if len(acc.samples) < 3 and len(toks) >= 5 and rng.random() < 0.02:
            acc.samples.append({"level": "AHB tokens", "tokens": " ".join(toks), "string": s, "spec_parts": st["obs"]["parts"]})
    else:
        await expect_reject_everywhere(s, acc, "incomplete: " + " ".join(toks))
    dead = sorted(set(st["obs"]["en"]) ^ {"M", "S", "K", "a", "(", ")", "U", "X", "O"})
    for t in dead:
        suffix = [rng.choice(["a", "(", ")", "U", "X", "O", "M", "K"]) for _ in range(rng.randint(0, 3))]
        for tail in ([t], [t] + suffix):
            s2, _ = AS.render(toks + tail, rng)
            await expect_reject_everywhere(s2, acc, f"token {t} cannot follow {' '.join(toks)}")


async def ahb_long_state(st, idx, sd, acc):
    """long AHB expressions (many modal-mark parts): only acceptance / rejection of the string itself"""
    toks = list(st["consumed"])
    if len(toks) < 7:
        return
    rng = random.Random(sd * 1000003 + idx)
    s, _ = AS.render(toks, rng)
    exp = "accept" if st["obs"]["acc"] else "reject"
    acc.c("states_replayed")
    acc.distinct.add(hash(("ahblong",) + tuple(toks)))
    v, _ = await parse_resolver(s)
    acc.c("parses")
    if v != exp:
        acc.v(f"resolver on {s!r} (tokens {' '.join(toks)}): {v}, the documented language says {exp}", {"string": s, "tokens": toks, "entry": "resolver", "expected": exp})
    a, _ = parse_ahb_only(s)
    acc.c("parses")
    if a.startswith("exception") or (exp == "accept" and st["obs"]["parts"] != () and a != "accept"):
        acc.v(f"AHB parser on {s!r} (tokens {' '.join(toks)}): {a}, the string is one of the documented forms" if exp == "accept" else f"AHB parser on {s!r}: {a}",
              {"string": s, "tokens": toks, "entry": "ahb", "expected": exp})
    if exp == "reject" and idx % 5 == 0:
        k, r = await validity(s)
        acc.c("validity_checks")
        if k != "returned" or r[0] is not False or not r[1]:
            acc.v(f"is_valid_expression({s!r}): {k} {r}, expected (False, message)", {"string": s, "entry": "validity", "expected": "reject"})


def _worker(args):
    which, dump, shard, nshards, sd, extra = args
    import ahb
    ahb.configure()
    acc = Acc()

    async def go():
        idx = -1
        for st in dump_states(dump, shard, nshards):
            idx += 1
            try:
                if which == "lexer":
                    await lexer_state(st, idx * nshards + shard, sd, acc, extra)
                elif which == "ahblong":
                    await ahb_long_state(st, idx * nshards + shard, sd, acc)
                else:
                    await ahb_state(st, idx * nshards + shard, sd, acc)
            except Exception as e:
                raise MachineryError(f"harness exception on {st}: {type(e).__name__}: {e}") from e
            if len(acc.viol) >= 60:
                break

    asyncio.run(go())
    return acc.viol, acc.samples, acc.counts, acc.distinct


def merge(res, outs):
    for viol, samples, counts, distinct in outs:
        for d, c in viol:
            res.violation(d, c)
        for s in samples:
            res.sample(s)
        for k, v in counts.items():
            res.count(k, v)
        res.merge_distinct(distinct)


# ------------------------------------------------------------------ C. mutated long expressions decided by TLC
def mutate(s, rng):
    alphabet = "[]()0123456789PBU uoOxX.∧∨⊻\tb#p\n"
    k = rng.random()
    i = rng.randrange(len(s) + 1)
    letters = [j for j, ch in enumerate(s) if ch.isalpha()]
    if letters and rng.random() < 0.25:          # flip the letter case of one letter (P/p, UB/ub/Ub, operator letters)
        j = rng.choice(letters)
        return s[:j] + s[j].swapcase() + s[j + 1:]
    if k < 0.3 and s:
        i = min(i, len(s) - 1)
        return s[:i] + s[i + 1:]
    if k < 0.6:
        return s[:i] + rng.choice(alphabet) + s[i:]
    if k < 0.85 and s:
        i = min(i, len(s) - 1)
        return s[:i] + rng.choice(alphabet) + s[i + 1:]
    if len(s) >= 2:
        i = min(i, len(s) - 2)
        return s[:i] + s[i + 1] + s[i] + s[i + 2:]
    return s


def lexer_traces(res, work, n):
    import ahb  # noqa: F401
    rng = random.Random(seed() * 101 + 3)
    traces = []
    for tid in range(1, n + 1):
        toks = CP.random_tokens(rng, rng.randint(1, 12))
        s, _ = CP.render_tokens(toks, rng)
        for _ in range(rng.choice([0, 1, 1, 1, 2, 3])):
            s = mutate(s, rng)
        v = parse_cond(s)
        if v.startswith("exception"):
            res.violation(f"condition parser on {s!r}: {v}; only SyntaxError may escape", {"string": s, "entry": "condition"})
            continue
        traces.append({"id": tid, "chars": classify(s), "verdict": v, "string": s})
    # very deep nesting (the parsers must cope with it: no RecursionError or the like) and one-character mutations of it
    tid = len(traces)
    for depth in (40, 300, 600):
        base = "".join(f"[{i}] {rng.choice('UOX')} (" for i in range(1, depth)) + f"[{depth}]" + ")" * (depth - 1)
        for variant in (base, base[:-1], base.replace("(", "((", 1) + ")", base[:len(base) // 2] + ")" + base[len(base) // 2:]):
            tid += 1
            v = parse_cond(variant)
            if v.startswith("exception"):
                res.violation(f"condition parser on an expression nested {depth} levels deep ({len(variant)} characters): {v}; only SyntaxError may escape",
                              {"string": variant, "entry": "condition"})
                continue
            traces.append({"id": tid, "chars": classify(variant), "verdict": v, "string": variant})
    slim = [{"id": t["id"], "chars": t["chars"], "verdict": t["verdict"]} for t in traces]
    t2, acc, diag = validate_traces("LexerTrace", "LexerTrace.cfg", slim, work, tag="lexertrace")
    res.add_tlc("LexerTrace: verdicts of the real condition parser on mutated random expressions (up to ~80 characters)", t2)
    res.count("traces_validated_against_impl", len(traces))
    nacc = 0
    for t in traces:
        res.distinct(("mut", t["string"]))
        nacc += t["verdict"] == "accept"
        if t["id"] not in acc:
            res.violation(f"condition parser says {t['verdict']} for {t['string']!r}, Lexer.tla says the opposite",
                          {"string": t["string"], "entry": "condition", "expected": "accept" if t["verdict"] == "reject" else "reject"})
    res.coverage["mutated_strings_accepted_by_both"] = nacc
    res.coverage["mutated_strings_rejected_by_both"] = len(traces) - nacc


# ------------------------------------------------------------------ D. arbitrary garbage: nothing but SyntaxError escapes
def garbage(res, n):
    import ahb
    ahb.configure()
    rng = random.Random(seed() * 53 + 11)
    pool = list("[]()0123456789PBUuOoXx.∧∨⊻ \t\nMmSsKkLlAaNnussollann") + ["Muss", "Soll", "Kann", "UB1", "..", "[1]", "K", "ſ"]

    async def go():
        for _ in range(n):
            if rng.random() < 0.7:
                s = "".join(rng.choice(pool) for _ in range(rng.randint(0, 14)))
            else:
                s = "".join(chr(rng.choice([rng.randint(0, 0x2ff), rng.randint(0x2000, 0x22ff), rng.randint(0xff00, 0xff60), rng.randint(32, 126)]))
                            for _ in range(rng.randint(0, 12)))
            res.count("evaluations")
            v = parse_cond(s)
            a, _ = parse_ahb_only(s)
            r, _ = await parse_resolver(s)
            for name, verdict in (("condition parser", v), ("AHB parser", a), ("resolver", r)):
                if verdict.startswith("exception"):
                    res.violation(f"{name} on {s!r}: {verdict}; only SyntaxError may escape", {"string": s, "entry": name})
            w = await resolve_with_packages(s)
            if w.startswith("exception"):
                res.violation(f"resolver with resolve_packages=True on {s!r}: {w}; only SyntaxError (or NotImplementedError) may escape", {"string": s, "entry": "resolver+packages"})
            if r == "reject":
                k, rr = await validity(s)
                if k != "returned" or rr[0] is not False or not rr[1]:
                    res.violation(f"is_valid_expression({s!r}) = {k} {rr}; a string no parser accepts must be reported as (False, message)",
                                  {"string": s, "entry": "validity"})
            if v == "accept" and r != "accept":
                res.violation(f"condition parser accepts {s!r} but the resolver says {r}", {"string": s, "entry": "resolver"})

    asyncio.run(go())


def run():
    res = Result(PID)
    work = Work(PID)
    thorough = tier() == "thorough"
    nch = 8 if thorough else 6
    cfg = work.path("lexer.cfg")
    cfg.write_text(f"CONSTANTS\n MaxChars = {nch}\nINIT MCInit\nNEXT MCNext\nINVARIANT AcceptsExactlyWellFormed\nINVARIANT DepthIsOpenBrackets\nCHECK_DEADLOCK FALSE\n")
    dump = work.path("lexer.dump")
    t = run_tlc("Lexer", str(cfg), work, dump=dump, timeout=3000)
    res.add_tlc(f"Lexer: all viable character-class prefixes <= {nch} characters; acceptance = CondLang!WellFormed of the emitted tokens", t)
    with mp.get_context("fork").Pool(16) as pool:
        merge(res, pool.map(_worker, [("lexer", str(dump), i, 16, seed(), 3 if thorough else 4) for i in range(16)]))
    dump.unlink()
    cfg8 = work.path("lexer8.cfg")
    cfg8.write_text(f"CONSTANTS\n MaxChars = {nch + 2}\nINIT MCInit\nNEXT MCNext\nINVARIANT AcceptsExactlyWellFormed\nINVARIANT DepthIsOpenBrackets\nCHECK_DEADLOCK FALSE\n")
    t8 = run_tlc("Lexer", str(cfg8), work, timeout=3000)
    res.add_tlc(f"Lexer: same invariants <= {nch + 2} characters (spec level only)", t8)
    ntok = 7 if thorough else 5
    cfga = work.path("ahbsplit.cfg")
    cfga.write_text(f"CONSTANTS\n MaxTok = {ntok}\n Alphabet = {{\"M\", \"S\", \"K\", \"a\", \"(\", \")\", \"U\", \"X\", \"O\"}}\nINIT MCInit\nNEXT MCNext\n" + "\n".join(
        "INVARIANT " + i for i in ["PartsWellFormed", "ViabilityIsExact", "SplitIsLossless", "OnePrefixPart", "BareOnlyLast", "ObsIsConsistent"]) + "\nCHECK_DEADLOCK FALSE\n")
    dumpa = work.path("ahbsplit.dump")
    ta = run_tlc("AhbSplit", str(cfga), work, dump=dumpa, timeout=3000)
    res.add_tlc(f"AhbSplit: all viable token prefixes <= {ntok} tokens of the AHB-expression language (modal words, prefix operators, condition tokens)", ta)
    with mp.get_context("fork").Pool(16) as pool:
        merge(res, pool.map(_worker, [("ahb", str(dumpa), i, 16, seed(), 0) for i in range(16)]))
    dumpa.unlink()
    nlong = 12 if thorough else 10
    cfgl = work.path("ahbsplit-long.cfg")
    cfgl.write_text(f"CONSTANTS\n MaxTok = {nlong}\n Alphabet = {{\"M\", \"K\", \"a\", \"U\"}}\nINIT MCInit\nNEXT MCNext\nINVARIANT ObsIsConsistent\nINVARIANT SplitIsLossless\nCHECK_DEADLOCK FALSE\n")
    dumpl = work.path("ahbsplit-long.dump")
    tl = run_tlc("AhbSplit", str(cfgl), work, dump=dumpl, timeout=3000, tag="ahbsplit-long")
    res.add_tlc(f"AhbSplit: all viable prefixes <= {nlong} tokens over a small alphabet (two modal words, operand, U): up to {nlong // 2} modal-mark parts", tl)
    with mp.get_context("fork").Pool(16) as pool:
        merge(res, pool.map(_worker, [("ahblong", str(dumpl), i, 16, seed(), 0) for i in range(16)]))
    dumpl.unlink()
    res.coverage["traces_validated_against_impl"] += res.coverage.get("parses", 0) + res.coverage.get("validity_checks", 0)
    res.coverage["evaluations"] = res.coverage.get("parses", 0) + res.coverage.get("validity_checks", 0)
    lexer_traces(res, work, 20000 if thorough else 2500)
    garbage(res, 30000 if thorough else 3000)
    res.coverage["exhaustive"] = True
    res.coverage["rule"] = (f"(A) every viable character-class prefix <= {nch} of the condition language: the string itself (accept/reject) and up to "
                            "4 not-enabled next characters (+random suffix) must be rejected; (B) every viable token prefix of the AHB language "
                            f"<= {ntok} tokens: accepting ones must be split as the spec says, the others and every not-enabled next token are "
                            "SyntaxError at the resolver and (False, message) at the validity check; (C) mutated random expressions decided by TLC; "
                            "(D) random garbage: nothing but SyntaxError escapes; non-trivial = at least 3 characters/tokens")
    res.assumptions += ["the AHB-only parser does not check the condition part (its documentation says so): it is only required to split the documented "
                        "forms and to raise nothing but SyntaxError",
                        "leading whitespace / whitespace after a bare final mark are not asserted either way (C09's 'whitespace around condition expressions')"]
    return res.finish(work)


def replay(case):
    import ahb
    ahb.configure()
    s = case["string"]
    print("string:", repr(s), "expected:", case.get("expected"), "entry:", case.get("entry"))
    v = parse_cond(s)
    r, _ = asyncio.run(parse_resolver(s))
    a, _ = parse_ahb_only(s)
    k, rr = asyncio.run(validity(s))
    print(" condition parser:", v, "| resolver:", r, "| AHB parser:", a, "| validity:", k, rr and (rr[0], (rr[1] or "")[:40]))
    exp = case.get("expected")
    e = case.get("entry")
    if e == "condition":
        return 0 if v == exp else 1
    if e == "resolver" and exp in ("accept", "reject"):
        return 0 if r == exp else 1
    if e == "validity":
        return 0 if (k == "returned" and rr[0] is False and rr[1]) else 1
    if e == "resolver+packages":
        w = asyncio.run(resolve_with_packages(s))
        print(" resolver with packages:", w)
        return 1 if w.startswith("exception") else 0
    return 1 if any(x.startswith("exception") for x in (v, r, a)) else 0


if __name__ == "__main__":
    main_wrapper(run)
