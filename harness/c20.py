"""C20 - the shipped date-time format constraints judge the instant, not its notation (GermanTime.tla)."""
import asyncio
import multiprocessing as mp
import random
from datetime import datetime, timedelta, timezone

from common import MachineryError, Result, Work, dump_states, main_wrapper, run_tlc, seed, tier, to_tla

PID = "C20"
SODS = [0, 1, 3599, 3600, 3601, 4 * 3600 - 1, 4 * 3600, 4 * 3600 + 1, 5 * 3600 - 1, 5 * 3600, 5 * 3600 + 1, 6 * 3600, 12 * 3600,
        22 * 3600 - 1, 22 * 3600, 22 * 3600 + 1, 23 * 3600 - 1, 23 * 3600, 23 * 3600 + 1, 86399]
OFFSETS_Q = ["Z", 0, 60, 120, -480, 330, 345, -15, 75, 840, -720]
OFFSETS_T = ["Z"] + [h * 60 for h in range(-12, 15)] + [330, 345, -210, 570, -15, 75, 525, 765, 825, 1, -1, 59, 839]
EPOCH = datetime(1996, 1, 1)


def notation(t, off):
    """the instant t (seconds since 1996-01-01T00:00:00Z) written with UTC offset `off` minutes ('Z' = zero offset written as Z)"""
    o = 0 if off == "Z" else off
    local = EPOCH + timedelta(seconds=t + o * 60)
    if off == "Z":
        return local.strftime("%Y-%m-%dT%H:%M:%S") + "Z"
    sign = "+" if o >= 0 else "-"
    return local.strftime("%Y-%m-%dT%H:%M:%S") + f"{sign}{abs(o) // 60:02d}:{abs(o) % 60:02d}"


def alt_notations(t, off):
    """other ways of writing the same instant as an ISO-8601 datetime with UTC offset: basic format, offset without colon, hour-only offset, fraction of a
    second. Only those this Python's datetime.fromisoformat reads as that very instant are used (what fromisoformat accepts differs between Python versions)"""
    o = 0 if off == "Z" else off
    local = EPOCH + timedelta(seconds=t + o * 60)
    sign = "+" if o >= 0 else "-"
    hh, mm = abs(o) // 60, abs(o) % 60
    ext, bas = local.strftime("%Y-%m-%dT%H:%M:%S"), local.strftime("%Y%m%dT%H%M%S")
    cands = [f"{ext}{sign}{hh:02d}{mm:02d}", f"{bas}{sign}{hh:02d}{mm:02d}", f"{bas}{sign}{hh:02d}:{mm:02d}", f"{ext}.000{sign}{hh:02d}:{mm:02d}",
             f"{ext},000000{sign}{hh:02d}:{mm:02d}"]
    if mm == 0:
        cands += [f"{ext}{sign}{hh:02d}", f"{bas}{sign}{hh:02d}"]
    if o == 0:
        cands += [f"{bas}Z", f"{ext}.000Z"]
    want = EPOCH.replace(tzinfo=timezone.utc) + timedelta(seconds=t)
    out = []
    for c in cands:
        try:
            d = datetime.fromisoformat(c)
        except ValueError:
            continue
        if d.tzinfo is not None and d == want:
            out.append(c)
    return out


def evaluator():
    from ahbicht.content_evaluation.fc_evaluators import FcEvaluator
    return type("ShippedFc", (FcEvaluator,), {})()


def _worker(args):
    dump, shard, nshards, sd, offsets = args
    import ahb
    ahb.configure()
    from ahbicht.content_evaluation.fc_evaluators import text_to_be_evaluated_by_format_constraint as var
    from ahbicht.expressions.format_constraint_expression_evaluation import format_constraint_evaluation
    ev = evaluator()
    ahb.use_provider([ev])
    methods = {k: getattr(ev, f"evaluate_{k}") for k in (931, 932, 933, 934, 935)}
    viol, samples = [], []
    n = 0
    instants = 0
    rng = random.Random(sd * 17 + shard)

    async def through_expression(k, s):
        var.set(s)
        r = await format_constraint_evaluation(f"[{k}]")
        return r.format_constraints_fulfilled, r.error_message

    loop = asyncio.new_event_loop()
    for st in dump_states(dump, shard, nshards):
        t = st["day"] * 86400 + st["sod"]
        v = st["v"]
        instants += 1
        for off in offsets:
            s = notation(t, off)
            exp = {931: (off == "Z" or off == 0), 932: v["strom"], 933: v["strom"], 934: v["gas"], 935: v["gas"]}
            for k, m in methods.items():
                n += 1
                try:
                    r = m(s)
                    got, msg = r.format_constraint_fulfilled, r.error_message
                except BaseException as e:  # pylint:disable=broad-except
                    viol.append((f"evaluate_{k}({s!r}) raised {type(e).__name__}: {e}", {"string": s, "key": k}))
                    continue
                if got != exp[k]:
                    viol.append((f"evaluate_{k}({s!r}) = {got}; the instant is {'not ' if not exp[k] else ''}"
                                 + ("written with a zero offset" if k == 931 else f"{'00' if k < 934 else '06'}:00:00 German local time "
                                    f"(local second of day {v['localsod']}, {'CEST' if v['cest'] else 'CET'})"), {"string": s, "key": k, "expected": exp[k]}))
                elif not got and not msg:
                    viol.append((f"evaluate_{k}({s!r}) is unfulfilled without an error message", {"string": s, "key": k}))
            if v["strom"] or v["gas"] or rng.random() < 0.03:
                # the verdict never depends on the notation: other ISO-8601 spellings of the same instant
                for s2 in alt_notations(t, off):
                    for k, m in methods.items():
                        n += 1
                        try:
                            r = m(s2)
                        except BaseException as e:  # pylint:disable=broad-except
                            viol.append((f"evaluate_{k}({s2!r}) raised {type(e).__name__}: {e}", {"string": s2, "key": k}))
                            continue
                        if r.format_constraint_fulfilled != exp[k]:
                            viol.append((f"evaluate_{k}({s2!r}) = {r.format_constraint_fulfilled} but the same instant written {s!r} gives (and must give) {exp[k]}",
                                         {"string": s2, "key": k, "expected": exp[k]}))
            if rng.random() < 0.01:
                k = rng.choice([931, 932, 933, 934, 935])
                n += 1
                try:
                    got, msg = loop.run_until_complete(through_expression(k, s))
                    if got != exp[k] or (not got and not msg):
                        viol.append((f"format_constraint_evaluation('[{k}]') on {s!r} = ({got}, {msg!r}), expected fulfilled={exp[k]}", {"string": s, "key": k, "expected": exp[k]}))
                except BaseException as e:  # pylint:disable=broad-except
                    viol.append((f"format_constraint_evaluation('[{k}]') on {s!r} raised {type(e).__name__}", {"string": s, "key": k}))
        if len(samples) < 2 and (v["strom"] or v["gas"]) and rng.random() < 0.05:
            samples.append({"instant_utc": notation(t, "Z"), "notations": [notation(t, o) for o in offsets[:4]], "spec": dict(v)})
        if len(viol) > 40:
            break
    loop.close()
    return viol, samples, n, instants


BOUNDARY = ["", " ", "Z", "T", "2022-01-01", "2022-01-01T00:00:00", "2022-01-01T00:00", "0001-01-01T00:00:00+05:00", "0001-01-01T00:00:00+00:00",
            "0001-01-01T00:00:00Z", "0001-01-01T00:30:00+01:00", "9999-12-31T23:30:00+00:00", "9999-12-31T23:59:59-01:00", "9999-12-31T23:59:59Z",
            "9999-12-31T22:00:00-12:00", "0000-01-01T00:00:00Z", "10000-01-01T00:00:00Z", "2022-13-01T00:00:00Z", "2022-00-10T00:00:00Z", "2022-01-32T00:00:00Z",
            "2022-02-30T00:00:00+01:00", "2022-01-01T24:00:00Z", "2022-01-01T23:60:00Z", "2022-01-01T23:59:60Z", "2022-01-01T00:00:00+24:00",
            "2022-01-01T00:00:00+23:59", "2022-01-01T00:00:00-23:59", "2022-01-01T00:00:00+99:99", "2022-01-01T00:00:00+1", "2022-01-01T00:00:00+01",
            "2022-01-01T00:00:00+0100", "2022-01-01 00:00:00+01:00", "20220101T000000+0100", "2022-01-01T00:00:00.123456+01:00", "2022-01-01T00:00:00,5+01:00",
            "2022-W01-1T00:00:00+01:00", "2022-01-01T00:00:00ZZ", "2022-01-01T00:00:00 Z", "Z2022-01-01T00:00:00", "2022-01-01T00:00:00+01:00Z", "２０２２-01-01T00:00:00Z",
            "2022-01-01T00:00:00\x00Z", "NaN", "None", "-2022-01-01T00:00:00Z", "+2022-01-01T00:00:00Z", "2022-1-1T0:0:0Z", "1996-01-01T00:00:00+00:00:00",
            "1996-01-01T00:00:00+00:00:01", "1996-01-01T00:00:00+00:00:00.000001", "2037-12-31T23:00:00+00:00", "1900-01-01T00:00:00+01:00", "1893-04-01T00:00:00+01:00",
            "1945-05-24T02:00:00+03:00", "1980-04-06T01:00:00+00:00"]
DEFINITELY_INVALID = {"", " ", "Z", "T", "2022-01-01T00:00:00", "2022-13-01T00:00:00Z", "2022-01-32T00:00:00Z", "NaN", "None", "2022-01-01T24:00:00Z" if False else "NaN"}


def no_raise_clause(res, n_garbage):
    """any other string: an EvaluatedFormatConstraint comes back (no exception), unfulfilled ones carry a message; strings that are
    certainly no datetime with offset are unfulfilled"""
    import ahb  # noqa: F401
    from ahbicht.models.condition_nodes import EvaluatedFormatConstraint
    ev = evaluator()
    rng = random.Random(seed() * 5 + 1)
    alphabet = "0123456789-:TZ+. "
    strings = list(BOUNDARY)
    for _ in range(n_garbage):
        k = rng.random()
        if k < 0.5:
            base = notation(rng.randrange(0, 15341 * 86400), rng.choice(OFFSETS_T))
            i = rng.randrange(len(base))
            strings.append(base[:i] + rng.choice(alphabet + "abXx\t") + base[i + (rng.random() < 0.5):])
        elif k < 0.8:
            strings.append("".join(rng.choice(alphabet) for _ in range(rng.randint(0, 26))))
        else:
            strings.append("".join(chr(rng.choice([rng.randint(32, 126), rng.randint(0x80, 0x24f), rng.randint(0xff10, 0xff19)])) for _ in range(rng.randint(0, 20))))
    # very long inputs (error messages quote the input), datetimes padded with white space
    some = notation(9000 * 86400 + 82800, 0)
    strings += ["x" * 1500, "9" * 3000, some + " " * 2000, (some + " ") * 120, "\u00e4" * 1100, " " + some, some + " ", "\t" + some + "\n", some + "\u00a0"]
    from ahbicht.content_evaluation.fc_evaluators import text_to_be_evaluated_by_format_constraint as var
    from ahbicht.expressions.format_constraint_expression_evaluation import format_constraint_evaluation
    ahb.use_provider([ev])

    async def through_expression(k, s):
        var.set(s)
        r = await format_constraint_evaluation(f"[{k}]")
        return r.format_constraints_fulfilled, r.error_message

    loop = asyncio.new_event_loop()
    for s in strings:
        for k in (931, 932, 933, 934, 935):
            res.count("evaluations")
            try:
                r = getattr(ev, f"evaluate_{k}")(s)
            except BaseException as e:  # pylint:disable=broad-except
                res.violation(f"evaluate_{k}({s[:80]!r}) (length {len(s)}) raised {type(e).__name__}: {str(e)[:200]}; no string input may make these constraints raise", {"string": s, "key": k})
                continue
            if not isinstance(r, EvaluatedFormatConstraint):
                res.violation(f"evaluate_{k}({s!r}) returned {type(r).__name__}", {"string": s, "key": k})
            elif not r.format_constraint_fulfilled and not r.error_message:
                res.violation(f"evaluate_{k}({s!r}) is unfulfilled without an error message", {"string": s, "key": k})
            elif r.format_constraint_fulfilled and s in DEFINITELY_INVALID:
                res.violation(f"evaluate_{k}({s!r}) is fulfilled although the string is no datetime with UTC offset", {"string": s, "key": k})
            else:
                # the same constraint reached through the expression evaluation judges the same text
                try:
                    got, msg = loop.run_until_complete(through_expression(k, s))
                except BaseException as e:  # pylint:disable=broad-except
                    res.violation(f"format_constraint_evaluation('[{k}]') on {s[:80]!r} (length {len(s)}) raised {type(e).__name__}; no string input may make these "
                                  "constraints raise", {"string": s, "key": k})
                    continue
                if bool(got) != bool(r.format_constraint_fulfilled):
                    res.violation(f"format_constraint_evaluation('[{k}]') on {s[:80]!r} reports fulfilled={got}, evaluate_{k} on the same text {r.format_constraint_fulfilled}",
                                  {"string": s, "key": k})
                elif not got and not msg:
                    res.violation(f"format_constraint_evaluation('[{k}]') on {s[:80]!r} is unfulfilled without an error message", {"string": s, "key": k})
    loop.close()
    res.coverage["no_raise_strings"] = len(strings)


def run():
    res = Result(PID)
    work = Work(PID)
    thorough = tier() == "thorough"
    mod = work.path("MC_GermanTime.tla")
    mod.write_text(f"---- MODULE MC_GermanTime ----\nEXTENDS GermanTime\nMCSods == {to_tla(set(SODS))}\nMCAllDays == 0..15340\n====\n")
    cfg = work.path("MC_GermanTime.cfg")
    cfg.write_text(f"CONSTANTS\n Days <- {'MCAllDays' if thorough else 'SpecialDays'}\n Sods <- MCSods\nINIT Init\nNEXT Next\nINVARIANT Exclusive\n"
                   "INVARIANT OnlyAtTheTwoCandidateHours\nCHECK_DEADLOCK FALSE\n")
    dump = work.path("gt.dump")
    t = run_tlc(str(mod), str(cfg), work, dump=dump, timeout=3000)
    res.add_tlc(("GermanTime: every day 1996-01-01..2037-12-31" if thorough else "GermanTime: 11 special days per year 1996..2037 (both switch days +-1, "
                 "1 Jan, 31 Dec, 28 Feb, 1 Mar, 1 Jul)") + " x 20 seconds of the day; calendar/EU-rule sanity and one-limit-per-day as ASSUMEs", t)
    offsets = OFFSETS_T if thorough else OFFSETS_Q
    with mp.get_context("fork").Pool(16) as pool:
        outs = pool.map(_worker, [(str(dump), i, 16, seed(), offsets) for i in range(16)])
    dump.unlink()
    instants = 0
    for viol, samples, n, inst in outs:
        for d, c in viol:
            res.violation(d, c)
        for s in samples:
            res.sample(s)
        res.count("evaluations", n)
        instants += inst
    res.coverage["instants"] = instants
    res.coverage["offsets_per_instant"] = len(offsets)
    res.coverage["traces_validated_against_impl"] = res.coverage["evaluations"]
    res._distinct = set(range(instants * len(offsets)))       # every (instant, notation) is a distinct, non-trivial case by construction
    no_raise_clause(res, 20000 if thorough else 3000)
    res.coverage["exhaustive"] = thorough
    res.coverage["rule"] = ("one case = (instant, notation): the instant comes from the TLC enumeration (day x second of day) with the spec's verdicts, the notation writes it with "
                            f"each of {len(offsets)} UTC offsets (incl. Z); 931..935 are evaluated through FcEvaluator.evaluate_93x (all) and "
                            "format_constraint_evaluation('[93x]') (1% sample); all notations of one instant must get the spec's verdict; unfulfilled results must "
                            "carry a message; plus boundary / mutated / random strings for the no-exception clause")
    res.assumptions += ["exact verdicts are demanded only for the canonical notations YYYY-MM-DDTHH:MM:SS+HH:MM and ...Z (DESIGN 6.6); for other strings only "
                        "'no exception, message when unfulfilled' (what datetime.fromisoformat accepts differs between Python versions)",
                        "the renderer turns (instant, offset) into a civil date-time with Python's timezone-free datetime arithmetic"]
    return res.finish(work)


def replay(case):
    import ahb  # noqa: F401
    ev = evaluator()
    try:
        r = getattr(ev, f"evaluate_{case['key']}")(case["string"])
        print(f"evaluate_{case['key']}({case['string']!r}) =", r, "expected fulfilled =", case.get("expected"))
        if "expected" in case:
            return 0 if r.format_constraint_fulfilled == case["expected"] else 1
        return 0 if (r.format_constraint_fulfilled or r.error_message) else 1
    except BaseException as e:  # pylint:disable=broad-except
        print(f"evaluate_{case['key']}({case['string']!r}) raised", type(e).__name__, e)
        return 1


if __name__ == "__main__":
    main_wrapper(run)
