"""C12 - results do not depend on the completion order of asynchronous evaluators (Async.tla + gate driver)."""
import asyncio
import copy
import random

import asyncsc as A
import gates as GT
import plans as PL
from common import Result, Work, main_wrapper, seed, tier

PID = "C12"


def _auto(coro_fn, evaluators, tag_data=False):
    """runs a coroutine function with nothing yielding (used to derive static structure such as collected FC expressions)"""
    import ahb
    ahb.use_provider(evaluators)
    GT.G.reset(auto=True, tag_data=tag_data)
    return asyncio.run(coro_fn())


def proj_rc(r):
    return (r.requirement_constraints_fulfilled, r.requirement_is_conditional, r.format_constraints_expression, r.hints)


def proj_ahb(r):
    return (str(r.requirement_indicator.value), proj_rc(r.requirement_constraint_evaluation_result),
            r.format_constraint_evaluation_result.format_constraints_fulfilled, r.format_constraint_evaluation_result.error_message)


def fc_rule(k, text):
    return str(k % 10) in (text or "")


def sc_requirement(name, expr, rc):
    from ahbicht.expressions.condition_expression_parser import parse_condition_expression_to_tree
    from ahbicht.expressions.requirement_constraint_expression_evaluation import requirement_constraint_evaluation
    ev = GT.make_evaluators(rc_values=rc)
    plan = PL.plan_requirement_evaluation(parse_condition_expression_to_tree(expr))
    return A.Scenario(name, plan, lambda: requirement_constraint_evaluation(expr), ev, project=proj_rc,
                      describe=f"requirement_constraint_evaluation('{expr}') with {rc}")


def sc_format(name, expr, text):
    from ahbicht.content_evaluation.fc_evaluators import text_to_be_evaluated_by_format_constraint as var
    from ahbicht.expressions.format_constraint_expression_evaluation import format_constraint_evaluation
    ev = GT.make_evaluators(fc_rule=fc_rule)

    async def factory():
        var.set(text)
        return await format_constraint_evaluation(expr)

    plan = PL.seq(PL.set_(text), PL.plan_format_evaluation(expr, f"@{text}"))
    lab = PL.all_labels(PL.number_labels(plan))
    return A.Scenario(name, plan, factory, ev, tag_text=True, expect={l: (text, "any") for l in lab},
                      project=lambda r: (r.format_constraints_fulfilled, r.error_message),
                      describe=f"format_constraint_evaluation('{expr}') on input '{text}'")


def ahb_parts(tree, evaluators, tag_data=False):
    """[(condition tree or None, collected FC expression)] for the parts of a resolved AHB expression tree"""
    from ahbicht.expressions.requirement_constraint_expression_evaluation import requirement_constraint_evaluation
    from lark import Tree
    parts = []
    for ch in tree.children:
        if str(ch.data) == "single_requirement_indicator_expression":
            cond = ch.children[1]

            async def one(c=cond):
                return (await requirement_constraint_evaluation(copy.deepcopy(c))).format_constraints_expression

            parts.append((cond, _auto(one, evaluators, tag_data)))
        else:
            parts.append((None, None))
    return parts


def sc_ahb(name, expr, rc, text="x1y2", packages=None):
    """parse (+ resolve packages) and evaluate an AHB expression"""
    from ahbicht.content_evaluation.fc_evaluators import text_to_be_evaluated_by_format_constraint as var
    from ahbicht.expressions.ahb_expression_evaluation import evaluate_ahb_expression_tree
    from ahbicht.expressions.expression_resolver import parse_expression_including_unresolved_subexpressions
    ev = GT.make_evaluators(rc_values=rc, fc_rule=fc_rule, packages=packages)
    resolve = packages is not None

    async def parse():
        return await parse_expression_including_unresolved_subexpressions(expr, resolve_packages=resolve)

    resolved = _auto(parse, ev)

    async def parse_unresolved():          # public API only: the tree before package expansion (no awaitable is involved without packages)
        return await parse_expression_including_unresolved_subexpressions(expr, resolve_packages=False, replace_time_conditions=False)

    unresolved = _auto(parse_unresolved, ev)
    plan = PL.seq(PL.set_(text), PL.plan_expand_packages(unresolved) if resolve else None,
                  PL.plan_ahb_evaluation(ahb_parts(resolved, ev), text_tag=f"@{text}"))

    async def factory():
        var.set(text)
        tree = await parse_expression_including_unresolved_subexpressions(expr, resolve_packages=resolve)
        return await evaluate_ahb_expression_tree(tree)

    lab = PL.all_labels(PL.number_labels(plan))
    return A.Scenario(name, plan, factory, ev, tag_text=True, expect={l: (text, "any") for l in lab if l.startswith("fc:")}, project=proj_ahb,
                      describe=f"resolve+evaluate '{expr}' with {rc}" + (f", packages {packages}" if packages else ""))


def sc_packages(name, expr, packages):
    import ahb
    from ahbicht.expressions.condition_expression_parser import parse_condition_expression_to_tree
    from ahbicht.expressions.expression_resolver import expand_packages
    ev = GT.make_evaluators(packages=packages)
    tree = parse_condition_expression_to_tree(expr)
    plan = PL.seq(PL.plan_expand_packages(tree))
    import re
    substituted = re.sub(r"\[(\d+P)[^\]]*\]", lambda m: "(" + packages[m.group(1)] + ")", expr)     # every occurrence paired with ITS package
    return A.Scenario(name, plan, lambda: expand_packages(copy.deepcopy(tree)), ev, project=ahb.tree_shape,
                      expected=ahb.tree_shape(parse_condition_expression_to_tree(substituted)),
                      describe=f"expand_packages('{expr}') with {packages}")


def sc_gather_if_necessary(name):
    """the utility that mixes plain values and awaitables (used for the parts of an AHB expression), driven directly"""
    from ahbicht.utility_functions import gather_if_necessary
    ev = GT.make_evaluators()

    async def item(tag):
        await GT.G.gate(f"rc:{tag}")
        return f"value-of-{tag}"

    plan = PL.par(PL.seq(PL.await_(["rc:31"])), PL.seq(PL.await_(["rc:32"])), PL.seq(PL.await_(["rc:33"])))
    return A.Scenario(name, plan, lambda: gather_if_necessary(["plain-0", item(31), "plain-2", item(32), item(33), "plain-5"]), ev, project=list,
                      expected=["plain-0", "value-of-31", "plain-2", "value-of-32", "value-of-33", "plain-5"],
                      describe="gather_if_necessary on a list mixing three plain values and three awaitables")


def sc_validity(name, expr):
    """is_valid_expression: one evaluation per generated content evaluation result, each with its own context-local data"""
    import ahb
    from ahbicht.content_evaluation import is_valid_expression
    from ahbicht.expressions.condition_expression_parser import extract_categorized_keys_from_tree
    from ahbicht.expressions.expression_resolver import parse_expression_including_unresolved_subexpressions
    ev = GT.make_evaluators(from_data=True)

    async def parse():
        return await parse_expression_including_unresolved_subexpressions(expr)

    tree = _auto(parse, ev, tag_data=True)
    cers = extract_categorized_keys_from_tree(tree, sanitize=True).generate_possible_content_evaluation_results()
    children = []
    expect = {}
    for cer in cers:
        cid = GT.cer_id(cer)
        ahb.set_cer(cer)
        parts = ahb_parts(tree, ev, tag_data=True)
        children.append(PL.seq(PL.bind(cid), PL.plan_ahb_evaluation(parts, text_tag=f"@{cid}", tag=f"@{cid}")))
    plan = PL.par(*children)
    numbered = PL.number_labels(plan)
    for l in PL.all_labels(numbered):
        expect[l] = ("any", l.split("@", 1)[1].rsplit("#", 1)[0])
    return A.Scenario(name, plan, lambda: is_valid_expression(expr, ahb.set_cer), ev, tag_data=True, expect=expect,
                      describe=f"is_valid_expression('{expr}'): {len(cers)} concurrent evaluations with context-local data")


def sc_concurrent(name, expr, cer_values):
    """several evaluations of one AHB expression running concurrently, each with its own context-local evaluatable data from which requirement
    constraints, format constraints AND hint texts are taken: every evaluation's complete result must be the one it has when it runs alone"""
    import ahb
    from ahbicht.expressions.ahb_expression_evaluation import evaluate_ahb_expression_tree
    from ahbicht.expressions.expression_resolver import parse_expression_including_unresolved_subexpressions
    ev = GT.make_evaluators(from_data=True)
    cers = [ahb.make_cer(**v) for v in cer_values]

    async def parse():
        return await parse_expression_including_unresolved_subexpressions(expr)

    async def one(cer):
        ahb.set_cer(cer)        # (inside the evaluation's own task: context-local)
        return proj_ahb(await evaluate_ahb_expression_tree(await parse()))

    tree = _auto(parse, ev, tag_data=True)
    children, alone = [], []
    for cer in cers:
        cid = GT.cer_id(cer)
        ahb.set_cer(cer)
        parts = ahb_parts(tree, ev, tag_data=True)
        children.append(PL.seq(PL.bind(cid), PL.plan_ahb_evaluation(parts, text_tag=f"@{cid}", tag=f"@{cid}")))
        alone.append(_auto(lambda c=cer: one(c), ev, tag_data=True))
    plan = PL.par(*children)
    expect = {l: ("any", l.split("@", 1)[1].rsplit("#", 1)[0]) for l in PL.all_labels(PL.number_labels(plan))}

    async def factory():
        return tuple(await asyncio.gather(*[asyncio.ensure_future(one(c)) for c in cers]))

    return A.Scenario(name, plan, factory, ev, tag_data=True, expect=expect, expected=tuple(alone),
                      describe=f"{len(cers)} concurrent evaluations of '{expr}', each with its own context-local data (values and hint texts differ)")


def sc_wide_rc(name, nkeys):
    """one gather over more awaitables than any batching limit in sight (32, 64): key 1 is the only unfulfilled one and decides"""
    from ahbicht.expressions.requirement_constraint_expression_evaluation import requirement_constraint_evaluation
    expr = "[1] U (" + " O ".join(f"[{k}]" for k in range(2, nkeys + 1)) + ")"
    rc = {k: "F" for k in range(2, nkeys + 1)}
    rc[1] = "U"
    ev = GT.make_evaluators(rc_values=rc)
    return A.Scenario(name, PL.seq(), lambda: requirement_constraint_evaluation(expr), ev, project=proj_rc, expected=(False, True, None, None),
                      describe=f"requirement_constraint_evaluation of '[1] U ([2] O ... O [{nkeys}])' with only [1] unfulfilled: {nkeys} keys in one gather")


def sc_wide_validation(name, nseg):
    """a segment group with more children than any batching limit in sight, validated under random completion orders: every node once, in document order"""
    from ahbicht.validation.validation import validate_deep_anwendungshandbuch
    from maus.models.anwendungshandbuch import AhbMetaInformation, DeepAnwendungshandbuch
    from maus.models.edifact_components import DataElementFreeText, Segment, SegmentGroup
    rc = {k: ("U" if k % 7 == 3 else "F") for k in range(1, nseg + 1)}
    segs = [Segment(discriminator=f"s{k}", ahb_expression=f"Muss [{k}]",
                    data_elements=[DataElementFreeText(discriminator=f"e{k}", ahb_expression="Muss", entered_input="x", data_element_id="1234")])
            for k in range(1, nseg + 1)]
    sub = SegmentGroup(discriminator="g2", ahb_expression="Kann [1]", segments=[Segment(discriminator="s0", ahb_expression="Muss", data_elements=[])], segment_groups=[])
    deep = DeepAnwendungshandbuch(meta=AhbMetaInformation(pruefidentifikator="11042"),
                                  lines=[SegmentGroup(discriminator="g1", ahb_expression="Muss", segments=segs, segment_groups=[sub])])
    ev = GT.make_evaluators(rc_values=rc)
    expected = [("g1", "IS_REQUIRED"), ("g2", "IS_OPTIONAL"), ("s0", "IS_OPTIONAL")]
    for k in range(1, nseg + 1):
        if rc[k] == "F":
            expected += [(f"s{k}", "IS_REQUIRED"), (f"e{k}", "IS_REQUIRED_AND_FILLED")]
        else:
            expected += [(f"s{k}", "IS_FORBIDDEN")]
    proj = lambda rs: tuple((r.discriminator, str(r.validation_result.requirement_validation)) for r in rs)
    return A.Scenario(name, PL.seq(), lambda: validate_deep_anwendungshandbuch(copy.deepcopy(deep)), ev, project=proj, expected=tuple(expected),
                      describe=f"validate_deep_anwendungshandbuch on a group with a sub-group and {nseg} segments (every seventh forbidden)")


def injected_provider_check(res):
    """the library's own way to provide evaluatable data (evaluator_factory.create_and_inject_hardcoded_evaluators with an evaluatable_data_provider that reads
    context-local storage): two evaluations running concurrently with data of different formats must each behave as when running alone"""
    import contextvars
    import ahb
    import inject
    from ahbicht.content_evaluation.evaluationdatatypes import EvaluatableData
    from ahbicht.content_evaluation.evaluator_factory import create_and_inject_hardcoded_evaluators
    from ahbicht.expressions.requirement_constraint_expression_evaluation import requirement_constraint_evaluation
    from efoli import EdifactFormat
    var = contextvars.ContextVar("verif_injected_data")
    cer = ahb.make_cer(rc={1: "F", 2: "U"}, fc={}, hints={501: "H501"})

    def fresh():
        inject.clear()
        create_and_inject_hardcoded_evaluators(cer, evaluatable_data_provider=var.get, edifact_format=ahb.FMT, edifact_format_version=ahb.FV)

    async def one(fmt, yields):
        var.set(EvaluatableData(body={"of": str(fmt)}, edifact_format=fmt, edifact_format_version=ahb.FV))
        for _ in range(yields):
            await asyncio.sleep(0)
        try:
            r = await requirement_constraint_evaluation("[1] U [501]")
            return ("ok", r.requirement_constraints_fulfilled, r.hints)
        except NotImplementedError:
            return ("NotImplementedError",)
        except BaseException as e:  # pylint:disable=broad-except
            return ("raised", type(e).__name__)

    fmts = [ahb.FMT, EdifactFormat.MSCONS]
    try:
        alone = {}
        for f in fmts:
            fresh()
            alone[f] = asyncio.run(one(f, 0))
        for order in (fmts, fmts[::-1]):
            for yields in ((0, 0), (2, 0), (0, 2)):
                fresh()

                async def both():
                    return await asyncio.gather(*[asyncio.ensure_future(one(f, y)) for f, y in zip(order, yields)])

                got = dict(zip(order, asyncio.run(both())))
                res.count("evaluations", 2)
                if got != {f: alone[f] for f in order}:
                    res.violation(f"two concurrent evaluations whose evaluatable data come from context-local storage through the provider handed to "
                                  f"create_and_inject_hardcoded_evaluators (formats {[str(f) for f in order]}, yields before the evaluation {yields}): results "
                                  f"{ {str(k): v for k, v in got.items()} }, alone each gives { {str(k): v for k, v in alone.items()} }", {"kind": "injected-provider"})
                    return
    finally:
        inject.clear()
        ahb._cer_provider = None
        ahb.configure()
    res.coverage["injected_provider_check"] = "2 formats x 2 start orders x 3 yield patterns: every evaluation as when running alone"


def shipped_concurrent_check(res, rng):
    """the SHIPPED ContentEvaluationResult based evaluators / hints provider / package resolver (they take everything from the context-local evaluatable
    data): several evaluations of one expression running concurrently, each in its own task with its own data; every complete result as when running alone"""
    import ahb
    from ahbicht.expressions.ahb_expression_evaluation import evaluate_ahb_expression_tree
    from ahbicht.expressions.expression_resolver import parse_expression_including_unresolved_subexpressions
    ahb.use_cer_evaluators()
    datas = [dict(rc={1: "F", 2: "F", 3: "F", 4: "U"}, fc={901: True}, hints={501: "first 501", 502: "first 502"}, packages={"1P": "[3]", "3P": "[4]"}),
             dict(rc={1: "U", 2: "F", 3: "F", 4: "F"}, fc={901: False}, hints={501: "second 501", 502: "second 502"}, packages={"1P": "[4]", "3P": "[3]"}),
             dict(rc={1: "F", 2: "U", 3: "U", 4: "F"}, fc={901: True}, hints={501: "third 501", 502: "third 502"}, packages={"1P": "[4]", "3P": "[4] U [3]"}),
             dict(rc={1: "U", 2: "U", 3: "F", 4: "F"}, fc={901: False}, hints={501: "fourth 501", 502: "fourth 502"}, packages={"1P": "[3]", "3P": "[3]"})]

    for expr in ("Muss [1] U [501]", "X [2][901] U [502]", "Muss [1] U [501] U [1P] Soll [2][901] U [502] Kann [3P]"):
        async def one(d, yields):
            ahb.set_cer_values(**d)       # inside the evaluation's own task: context-local
            for _ in range(yields):
                await asyncio.sleep(0)
            try:
                tree = await parse_expression_including_unresolved_subexpressions(expr, resolve_packages=True)
                return proj_ahb(await evaluate_ahb_expression_tree(tree))
            except BaseException as e:  # pylint:disable=broad-except
                return ("raised", type(e).__name__, str(e)[:80])

        async def alone_all():
            return [await asyncio.ensure_future(one(d, 0)) for d in datas]

        alone = asyncio.run(alone_all())
        for trial in range(12):
            order = list(range(len(datas)))
            rng.shuffle(order)
            yields = [rng.randint(0, 3) for _ in order]

            async def together():
                return await asyncio.gather(*[asyncio.ensure_future(one(datas[i], y)) for i, y in zip(order, yields)])

            got = asyncio.run(together())
            res.count("evaluations", len(order))
            for i, g in zip(order, got):
                if g != alone[i]:
                    res.violation(f"{len(order)} concurrent evaluations of '{expr}' through the shipped ContentEvaluationResult based evaluators, each with its own "
                                  f"context-local data (start order {order}, yields before the start {yields}): evaluation #{i + 1} gives {g}, alone it gives {alone[i]}",
                                  {"kind": "shipped-concurrent"})
                    return
    res.coverage["shipped_concurrent_check"] = "3 expressions x 4 evaluations x 12 seeded start patterns through the shipped data-based evaluators: every result as when running alone"


def wide_scenarios(thorough):
    return [sc_wide_rc("rc40", 40), sc_wide_validation("wide40", 40)] + ([sc_wide_rc("rc33", 33), sc_wide_validation("wide34", 34)] if thorough else [])


def scenarios(thorough):
    s = [
        sc_requirement("rc3", "[1] O [2] U [3]", {1: "F", 2: "U", 3: "U"}),
        sc_requirement("rcdup", "([1] U [2] U [1]) O [3] U [501] U [502]", {1: "F", 2: "U", 3: "K"}),
        sc_format("fc3", "[901] O [902] U [903]", "x1"),
        sc_format("fcdup", "([901] X [902]) U [901]", "a2"),
        sc_ahb("ahb2", "Muss [1] U [501][901] Soll [2] O [3] U [902] Kann", {1: "U", 2: "F", 3: "U"}, text="t2"),
        sc_ahb("ahb3", "Muss [1] Soll [2][901] Kann [3] U [502]", {1: "U", 2: "U", 3: "F"}, text="t1"),
        sc_packages("pk3", "([1P] O [2P]) U [3P]", {"1P": "[1]", "2P": "[2] U [3]", "3P": "[4][901]"}),
        sc_packages("pkdup", "[1P] U [2P] O [1P] U [3P]", {"1P": "[1] O [5]", "2P": "[2]", "3P": "[UB1]"}),
        sc_packages("pkroot", "[7P]", {"7P": "[1] U [2]"}),
        # occurrences on different levels of the tree with the deeper ones on the RIGHT (tree walks that differ in order - top-down / bottom-up - disagree here)
        sc_packages("pkright", "[1P] O [2P] U [3P]", {"1P": "[1]", "2P": "[2]", "3P": "[3] X [4]"}),
        sc_packages("pkdeep", "[1P] X ([2P] O ([3P] U [4P] U [1P]))", {"1P": "[1]", "2P": "[2][901]", "3P": "[3]", "4P": "[4] O [5]"}),
        sc_packages("pkxxy", "[1P] U [1P] U [2P] O [3P]", {"1P": "[1]", "2P": "[2] X [3]", "3P": "[4]"}),
        sc_requirement("rc10", "([1] U [2]) O ([3] U [4]) O ([5] U [6]) O ([7] U [8]) O ([9] U [10])",
                       {1: "F", 2: "F", 3: "U", 4: "F", 5: "F", 6: "U", 7: "K", 8: "U", 9: "U", 10: "U"}),
        sc_ahb("ahbpkright", "Muss [4] O [1P] U [2P] Soll [3P]", {1: "U", 2: "F", 3: "F", 4: "U"}, text="z3", packages={"1P": "[1]", "2P": "[2]", "3P": "[3]"}),
        sc_ahb("ahbpk", "Muss [1P] U [4] Soll [2P][902]", {1: "U", 2: "F", 4: "F"}, text="z2", packages={"1P": "[1]", "2P": "[2] U [501]"}),
        sc_gather_if_necessary("gin"),
        sc_validity("valid1h", "Kann [1] U [501]"),
        sc_concurrent("conc3", "Muss [1] U [501] Kann [2][901]",
                      [dict(rc={1: "F", 2: "F"}, fc={901: True}, hints={501: "hint of the first"}), dict(rc={1: "U", 2: "F"}, fc={901: False}, hints={501: "hint of the second"}),
                       dict(rc={1: "F", 2: "U"}, fc={901: True}, hints={501: "hint of the third"})]),
        sc_validity("validfc", "Muss [1][901]"),
    ]
    if thorough:
        s += [
            sc_requirement("rc5", "([1] O [2]) U ([3] X [4]) U [5] U [501]", {1: "U", 2: "F", 3: "F", 4: "U", 5: "K"}),
            sc_ahb("ahb3fc", "Muss [1] U [901] U [902] Soll [2] U [503][903] Kann [3][904] U [504]", {1: "U", 2: "U", 3: "F"}, text="q3q4"),
            sc_packages("pk5", "(([1P] O [2P]) U [3P]) X ([4P] U [1P])", {"1P": "[1]", "2P": "[2]", "3P": "[3] U [4]", "4P": "[5][901]"}),
            sc_ahb("ahbpk3", "Muss [1P] U [2P] Soll [3P] O [4] Kann [1P]", {1: "U", 2: "F", 3: "U", 4: "U"}, text="z", packages={"1P": "[1]", "2P": "[2]", "3P": "[3]"}),
            sc_concurrent("conc2pk", "Muss [1] U [502] Soll [2] U [501][902]",
                          [dict(rc={1: "U", 2: "F"}, fc={902: True}, hints={501: "h1 of a", 502: "h2 of a"}), dict(rc={1: "F", 2: "K"}, fc={902: False}, hints={501: "h1 of b", 502: "h2 of b"})]),
        ]
    return s


def run():
    res = Result(PID)
    work = Work(PID)
    thorough = tier() == "thorough"
    rng = random.Random(seed() * 97 + 7)
    import ahb
    ahb.configure()
    for i, sc in enumerate(scenarios(thorough)):
        A.check_scenario(sc, res, work, rng, max_all=(3000 if thorough else 300), extra_random=(300 if thorough else 25), sensitivity=({"ahb2": [("completion_order", "copy", "Assoc")], "validfc": [("positional", "shared", "OwnContext")]}.get(sc.name)))
    injected_provider_check(res)
    shipped_concurrent_check(res, rng)
    for sc in wide_scenarios(thorough):
        A.check_large_scenario(sc, res, rng, n=(400 if thorough else 120))
    bad = [s for s in res.coverage.get("sensitivity", []) if s["violated"] != s["expected_to_violate"]]
    if bad:
        from common import MachineryError
        raise MachineryError(f"sensitivity configurations did not produce their counterexamples: {bad}")
    res.coverage["exhaustive"] = False
    res.coverage["rule"] = ("one case = (scenario, completion order): for every scenario TLC explores ALL interleavings of the plan's awaitables; the real code is "
                            "driven through every interleaving when there are at most 300 (thorough 3000), otherwise through a set of schedules covering every "
                            "transition of the interleaving graph plus seeded random ones; at every step the set of pending awaitables must equal the "
                            "specification's and the final result must equal the no-yield result; non-trivial = at least 2 awaitables; distinct by schedule")
    res.assumptions += ["plans are derived by harness/plans.py from the static structure of the input (the model of where ahbicht gathers); a start set that "
                        "differs from the plan is reported as a violation of the conformance, with both sets",
                        "every suspension point inside ahbicht is one of the user-supplied awaitables (gates) or a gather over them"]
    return res.finish(work)


def replay(case):
    import ahb
    ahb.configure()
    for sc in scenarios(True):
        if sc.name == case["scenario"] and case.get("schedule"):
            res = Result(PID)
            work = Work(PID + "replay")
            A.check_scenario(sc, res, work, random.Random(0), max_all=10 ** 6)
            work.cleanup()
            for d, _ in res.violations:
                print(d)
            return 1 if res.violations else 0
    print("scenario not found; re-running the check")
    return run()


if __name__ == "__main__":
    main_wrapper(run)
