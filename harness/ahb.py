"""Binding to the real library: dependency-injection set-up, abstraction (projection) functions from real
objects to the values the TLA+ specifications talk about, and renderers from abstract values to concrete
inputs. Imported only inside harness processes; always imports ahbicht from $AHBICHT_REPO/src (default /repo/src)."""
import logging
import os
import sys



class _Swallow(logging.Handler):
    """Logging stays ENABLED while the checks run - log records are created, the library's logger filters run and every message is formatted - but nothing
    is written anywhere: code on the logging path is part of the behaviour exactly as far as it is in production (a FILTER that raises makes the logging call
    raise; a message that cannot be formatted does not, real handlers swallow that too)."""

    def emit(self, record):
        try:
            record.getMessage()
        except Exception:  # noqa: BLE001 - as with any real handler: a message that cannot be formatted is reported by logging itself, it never reaches the caller
            pass


logging.getLogger().handlers[:] = [_Swallow()]
logging.getLogger().setLevel(logging.WARNING)       # ahbicht's own loggers set themselves to DEBUG; third-party libraries stay quiet
logging.captureWarnings(True)
_REPO = os.environ.get("AHBICHT_REPO", "/repo")
if sys.path[0] != _REPO + "/src":
    sys.path.insert(0, _REPO + "/src")
import warnings

warnings.filterwarnings("ignore")
from contextvars import ContextVar

import ahbicht.content_evaluation  # noqa: F401  (must be first: avoids the circular import)
import inject
from ahbicht.content_evaluation.evaluationdatatypes import EvaluatableData, EvaluatableDataProvider
from ahbicht.content_evaluation.evaluator_factory import create_content_evaluation_result_based_evaluators
from ahbicht.content_evaluation.token_logic_provider import SingletonTokenLogicProvider, TokenLogicProvider
from ahbicht.models.condition_nodes import ConditionFulfilledValue as CFV
from ahbicht.models.condition_nodes import EvaluatedFormatConstraint
from ahbicht.models.content_evaluation_result import ContentEvaluationResult, ContentEvaluationResultSchema
from efoli import EdifactFormat, EdifactFormatVersion
from lark import Token, Tree

assert ahbicht.__file__.startswith(_REPO), (ahbicht.__file__, _REPO)

FMT, FV = EdifactFormat.UTILMD, EdifactFormatVersion.FV2210
ST = {"F": CFV.FULFILLED, "U": CFV.UNFULFILLED, "K": CFV.UNKNOWN, "N": CFV.NEUTRAL}
ST_INV = {v: k for k, v in ST.items()}

_cer_var: ContextVar = ContextVar("verif_cer", default=None)
_token_logic_holder = {"provider": None}


_data_var: ContextVar = ContextVar("verif_data", default=None)
_DEFAULT_DATA = EvaluatableData(body=None, edifact_format=FMT, edifact_format_version=FV)


def _get_evaluatable_data():
    """ONE EvaluatableData object per set_cer call (and one for 'no data'): users hand the same object to every evaluation of a message, so behaviour that
    depends on the identity of the data object must show here"""
    d = _data_var.get()
    body = _cer_var.get()
    if d is not None and d.body is body:
        return d
    if body is None:
        return _DEFAULT_DATA
    return EvaluatableData(body=body, edifact_format=FMT, edifact_format_version=FV)


class _SwitchableProvider(TokenLogicProvider):
    """Delegates to whatever provider the harness installed last (inject can only be configured once)."""

    def get_rc_evaluator(self, *a, **k):
        return _token_logic_holder["provider"].get_rc_evaluator(*a, **k)

    def get_fc_evaluator(self, *a, **k):
        return _token_logic_holder["provider"].get_fc_evaluator(*a, **k)

    def get_hints_provider(self, *a, **k):
        return _token_logic_holder["provider"].get_hints_provider(*a, **k)

    def get_package_resolver(self, *a, **k):
        return _token_logic_holder["provider"].get_package_resolver(*a, **k)


_cer_provider = None


def configure():
    """Idempotent. Default: the shipped ContentEvaluationResult-based evaluators reading context-local data."""
    global _cer_provider
    if _cer_provider is None:
        _cer_provider = SingletonTokenLogicProvider([*create_content_evaluation_result_based_evaluators(FMT, FV)])
        _token_logic_holder["provider"] = _cer_provider

        def _cfg(binder):
            binder.bind(TokenLogicProvider, _SwitchableProvider())
            binder.bind_to_provider(EvaluatableDataProvider, _get_evaluatable_data)

        inject.clear_and_configure(_cfg)


def use_cer_evaluators():
    configure()
    _token_logic_holder["provider"] = _cer_provider


def use_provider(evaluators):
    """Install custom evaluators (list of RcEvaluator/FcEvaluator/HintsProvider/PackageResolver instances)."""
    configure()
    for e in evaluators:
        e.edifact_format = FMT
        e.edifact_format_version = FV
    _token_logic_holder["provider"] = SingletonTokenLogicProvider(list(evaluators))


_schema = ContentEvaluationResultSchema()


def make_cer(rc=None, fc=None, hints=None, packages=None):
    """rc: key -> 'F'/'U'/'K'; fc: key -> bool | (bool, msg); hints: key -> text; packages: 'nP' -> expression"""
    fcs = {}
    for k, v in (fc or {}).items():
        if isinstance(v, tuple):
            fcs[str(k)] = EvaluatedFormatConstraint(v[0], v[1])
        else:
            fcs[str(k)] = EvaluatedFormatConstraint(bool(v), None if v else f"E{k}")
    return ContentEvaluationResult(
        hints={str(k): v for k, v in (hints or {}).items()},
        format_constraints=fcs,
        requirement_constraints={str(k): ST[v] for k, v in (rc or {}).items()},
        packages={str(k): v for k, v in (packages or {}).items()},
    )


_shared_body = {}


def set_cer(cer, inplace=False):
    """inplace: the SAME body object is handed to the evaluators again, updated in place (evaluatable data may change between - not during -
    evaluation runs; an evaluator that remembers a deserialised result per body object would answer from the previous assignment)"""
    if inplace:
        _shared_body.clear()
        _shared_body.update(_schema.dump(cer))
        _cer_var.set(_shared_body)
    else:
        _cer_var.set(_schema.dump(cer))
    _data_var.set(EvaluatableData(body=_cer_var.get(), edifact_format=FMT, edifact_format_version=FV))


def set_cer_values(rc=None, fc=None, hints=None, packages=None, inplace=False, hardcoded=False):
    """hardcoded: the evaluators are the dictionary based ones that evaluator_factory.create_hardcoded_evaluators builds from the content evaluation
    result (the other public way to evaluate with known outcomes) instead of the ones that read it from the evaluatable data"""
    cer = make_cer(rc, fc, hints, packages)
    set_cer(cer, inplace=inplace)
    if hardcoded:
        from ahbicht.content_evaluation.evaluator_factory import create_hardcoded_evaluators
        use_provider(list(create_hardcoded_evaluators(cer, FMT, FV)))
    else:
        use_cer_evaluators()
    return cer


def hint_text(key):
    return f"H{key}"


# ------------------------------------------------------------------ lark tree -> abstract values
OPNAME = {"and_composition": "and", "or_composition": "or", "xor_composition": "xor", "then_also_composition": "then"}


def tree_shape(t):
    """Full structural projection of a lark tree (used for purity / equality checks)."""
    if isinstance(t, Tree):
        return (str(t.data), tuple(tree_shape(c) for c in t.children))
    if isinstance(t, Token):
        return ("tok", str(t.type), str(t.value))
    return ("other", repr(t))


def cond_tree_binary(t):
    """lark condition tree -> ('leaf', kind, text) | (op, left, right)"""
    d = str(t.data)
    if d == "condition":
        return ("leaf", "key", str(t.children[0].value))
    if d == "package":
        toks = [str(c.value) for c in t.children]
        return ("leaf", "pkg", " ".join(toks))
    if d == "time_condition":
        return ("leaf", "time", str(t.children[0].value))
    return (OPNAME[d], cond_tree_binary(t.children[0]), cond_tree_binary(t.children[1]))


SPELL = {"and": ["U", "u", "∧"], "or": ["O", "o", "∨"], "xor": ["X", "x", "⊻"]}
