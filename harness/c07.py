"""C07 - the collected format-constraint expression is well-formed and means the direct reading (Eval.tla: FcMeaning)."""
import evalcheck as E
from common import Result, Work, main_wrapper, run_tlc, tier

PID = "C07"
INV = ["TypeOK", "MachineAgreesWithDen", "FcMeaning"]


def run():
    res = Result(PID)
    work = Work(PID)
    thorough = tier() == "thorough"
    n = 4 if thorough else 3
    cfg = E.write_cfg(work, "eval.cfg", n, False, INV, fcs=(901, 902, 903) if not thorough else (901, 902))
    dump = work.path("eval.dump")
    t = run_tlc("Eval", cfg, work, dump=dump, timeout=3000)
    res.add_tlc(f"Eval: FcMeaning (collected expression = direct reading under every FC truth assignment), programs <= {n} leaves", t)
    E.replay_dump("C07", dump, res)
    dump.unlink()
    E.trace_validation(res, work, n_random=4000 if thorough else 800)
    E.unit_test_suite_traces(res, work, "rc")
    E.replay_simulated("C07", res, work, 4000 if thorough else 400)
    E.deep_fc_results(res, work, 3000 if thorough else 500)
    res.coverage["exhaustive"] = True
    res.coverage["rule"] = (f"every program <= {n} leaves x every RC assignment; the real format_constraints_expression is parsed by the real "
                            "parser, compared with the spec's AST, and evaluated by the real format_constraint_evaluation under every truth "
                            "assignment of its keys; non-trivial = at least one composition")
    res.assumptions += ["a collected expression whose bracket structure differs from the spec's AST but has the same keys and the same value "
                        "under every truth assignment is counted (fc_structure_differences_meaning_checked), not reported"]
    return res.finish(work)


def replay(case):
    import asyncio
    import ahb
    ahb.configure()
    E._KM.clear(); E._KM_INV.clear()
    for k, v in (case.get("keymap") or {}).items():
        E._KM[int(k)] = v
        E._KM_INV[v] = int(k)
    asg = {int(k): v for k, v in case["asg"].items()}
    if case.get("kind") == "deep-fc":
        from common import Work as _W
        w = _W(PID + "replay")
        _, bad = E.result_level_decision(w, [(case["expr"], asg)], tag="deepfc-replay")
        w.cleanup()
        print("expression:", case["expr"], asg, "->", "contradicts the specification: " + str(bad[0][1:]) if bad else "agrees with the specification")
        return 1 if bad else 0
    got = asyncio.run(E.eval_real(case["expr"], asg))
    print("expression:", case["expr"], asg, "->", got)
    acc = E.Acc()
    tree = E._tuplify(case["tree"])
    asyncio.run(E.check_fcx(case["expr"], asg, tree, E._tuplify(case["spec_fcx"]), got, acc, case))
    for d, _ in acc.viol:
        print("  ", d)
    return 1 if acc.viol else 0


if __name__ == "__main__":
    main_wrapper(run)
