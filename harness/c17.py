"""C17 - value pools offer exactly the admissible qualifiers and judge input by them (Validation.tla: PoolResult / PoolRules)."""
import asyncio
import copy
import itertools
import multiprocessing as mp
import random

import valcheck as V
from common import MachineryError, Result, Work, dump_states, main_wrapper, run_tlc, seed, tier

PID = "C17"


def all_pools(maxlen):
    out = []
    for n in range(1, maxlen + 1):
        out += list(itertools.product("TFKI", repeat=n))
    return out


async def direct_checks(nodes, obs, sd, idx, acc):
    """the pool added last, validated through validate_data_element_valuepool (three parent statuses) and validate_segment"""
    from ahbicht.models.validation_values import RequirementValidationValue as R
    from ahbicht.validation.validation import validate_data_element_valuepool, validate_segment
    if nodes[-1]["kind"] != "p" or obs["direct"] == ():
        return
    rs = sd * 1000003 + idx
    for st, real_st in (("REQUIRED", R.IS_REQUIRED), ("OPTIONAL", R.IS_OPTIONAL), ("FORBIDDEN", R.IS_FORBIDDEN)):
        deep, exprs, objs = V.build_ahb(nodes, random.Random(rs))
        el = objs[len(nodes)]
        V.setup_cer(deep)
        acc.c("validations")
        try:
            r = V.project_result(await validate_data_element_valuepool(el, real_st))
        except BaseException as e:  # pylint:disable=broad-except
            acc.v(f"validate_data_element_valuepool raised {type(e).__name__} for pool {exprs[len(nodes)]} input {nodes[-1]['inp']} under {st}",
                  V.case_of(nodes, sd, idx, parent=st))
            continue
        s = obs["direct"][st]
        got = ((r["status"] == "FORBIDDEN"), r["fill"], tuple(r["offered"]), r["flagged"])
        exp = ((s["status"] == "FORBIDDEN"), s["fill"], tuple(s["offered"]), s["flagged"])
        if got != exp:
            acc.v(f"value pool {exprs[len(nodes)]} with input {nodes[-1]['inp']} below a {st} segment: code (forbidden, fill, offered, flagged) = {got}, "
                  f"documented {exp}", V.case_of(nodes, sd, idx, parent=st))
    # through validate_segment with an explicit group requirement
    seg_idx = nodes[-1]["par"]
    for preq, pname in ((None, "NONE"), (R.IS_REQUIRED, "REQUIRED"), (R.IS_OPTIONAL, "OPTIONAL")):
        deep, exprs, objs = V.build_ahb(nodes, random.Random(rs))
        V.setup_cer(deep)
        acc.c("validations")
        try:
            rs_ = await validate_segment(objs[seg_idx], preq, True)
        except NotImplementedError:
            continue
        except BaseException as e:  # pylint:disable=broad-except
            acc.v(f"validate_segment raised {type(e).__name__}", V.case_of(nodes, sd, idx, parent=pname))
            continue
        proj = [V.project_result(x) for x in rs_]
        segst = proj[0]["status"]
        mine = [e for e in proj if e["id"] == len(nodes)]
        if segst == "FORBIDDEN":
            if mine:
                acc.v(f"validate_segment reports a value pool below a forbidden segment: {mine}", V.case_of(nodes, sd, idx, parent=pname))
            continue
        if not mine:
            acc.v("validate_segment did not report the value pool of a non-forbidden segment", V.case_of(nodes, sd, idx, parent=pname))
            continue
        s = obs["direct"][segst]
        r = mine[0]
        got = ((r["status"] == "FORBIDDEN"), r["fill"], tuple(r["offered"]), r["flagged"])
        exp = ((s["status"] == "FORBIDDEN"), s["fill"], tuple(s["offered"]), s["flagged"])
        if got != exp:
            acc.v(f"validate_segment (group requirement {pname}): value pool {exprs[len(nodes)]} input {nodes[-1]['inp']}: code {got}, documented {exp}",
                  V.case_of(nodes, sd, idx, parent=pname))


def _worker(args):
    dump, shard, nshards, sd = args
    import ahb  # noqa: F401
    acc = V.Acc()

    async def go():
        idx = -1
        for st in dump_states(dump, shard, nshards):
            idx += 1
            nodes = list(st["nodes"])
            if not nodes or nodes[-1]["kind"] != "p":
                continue
            gi = idx * nshards + shard
            try:
                await V.check_tree("C17", nodes, st["obs"], sd, gi, acc)
                await direct_checks(nodes, st["obs"], sd, gi, acc)
            except Exception as e:
                raise MachineryError(f"harness exception on {nodes}: {type(e).__name__}: {e}") from e
            if len(acc.viol) >= 40:
                break

    asyncio.run(go())
    return acc.viol, acc.samples, acc.counts, acc.distinct


QUALIFIER_FAMILIES = [lambda j: f"Z{j}", lambda j: f"{290 + 3 * j}", lambda j: "A" * j, lambda j: f"E{j:02d}", lambda j: f"{j}", lambda j: f"Q{j},"]


def large_pools(res, work, n):
    """random pools of 1..14 entries whose qualifiers are prefixes / substrings / lists of each other; entered value: absent, empty, a qualifier, a substring of
    the offered qualifiers, a value that is in no relation to them. The real result is decided by TLC (PoolTrace.tla)."""
    import ahb  # noqa: F401
    from common import validate_traces
    from ahbicht.models.validation_values import RequirementValidationValue as R
    from ahbicht.validation.validation import validate_data_element_valuepool
    from maus.models.edifact_components import DataElementValuePool, ValuePoolEntry
    rng = random.Random(seed() * 419 + 17)
    traces = []

    async def go():
        for tid in range(1, n + 1):
            size = rng.choice([1, 2, 3, 5, 8, 9, 10, 12, 14])
            fam = rng.choice(QUALIFIER_FAMILIES)
            quals = [fam(j) for j in range(1, size + 1)]
            pool = [rng.choice("TTFFKI") for _ in range(size)]
            if size >= 3 and rng.random() < 0.2:
                # a qualifier listed more than once (with different expressions): it is admissible iff one of its entries is
                for _ in range(rng.randint(1, max(1, size // 3))):
                    i, j = sorted(rng.sample(range(size), 2))
                    quals[j] = quals[i]
                if len(set(quals)) < 2:
                    quals[-1] = quals[-1] + "9"
            sub = random.Random(rng.random())
            dyn = {}
            entries = [ValuePoolEntry(qualifier=q, meaning=f"m{q}", ahb_expression=V.entry_expression(e, sub, dyn=dyn, slot=j))
                       for j, (q, e) in enumerate(zip(quals, pool), start=1)]
            kind = rng.random()
            if kind < 0.15:
                inp, idx = rng.choice([None, ""]), -1
            elif kind < 0.6:
                idx = rng.randint(1, size)
                inp = quals[idx - 1]
            else:
                joined = ", ".join(quals)
                a = rng.randrange(len(joined))
                cand = joined[a:a + rng.randint(1, 3)]
                inp = rng.choice([cand, cand.strip(), quals[0][:1], quals[-1] + "0", "ZZ", ","])
                if not inp:
                    inp = "ZZ"
                idx = quals.index(inp) + 1 if inp in quals else 0
            seg = rng.choice(["REQUIRED", "REQUIRED", "OPTIONAL", "FORBIDDEN"])
            el = DataElementValuePool(discriminator="n1", value_pool=entries, data_element_id="0333", entered_input=inp)
            V._DYN_PACKAGES[id(el)] = dyn
            V.setup_cer(el)
            try:
                r = V.project_result(await validate_data_element_valuepool(el, {"REQUIRED": R.IS_REQUIRED, "OPTIONAL": R.IS_OPTIONAL, "FORBIDDEN": R.IS_FORBIDDEN}[seg]))
            except BaseException as e:  # pylint:disable=broad-except
                res.violation(f"validate_data_element_valuepool raised {type(e).__name__} for qualifiers {quals} entries {pool} input {inp!r}", {"kind": "large-pool"})
                continue
            offered = [quals.index(f"{q}") + 1 for q in _offered_qualifiers(r, quals)]
            tpool, tidx = pool, idx
            if len(set(quals)) < len(quals):
                # judged on the level of qualifiers (first occurrences, in pool order); the ORDER of the offered qualifiers is not judged for such pools
                uniq = list(dict.fromkeys(quals))
                tpool = ["T" if any(e in "TI" for q2, e in zip(quals, pool) if q2 == q) else "F" for q in uniq]
                tidx = uniq.index(inp) + 1 if inp in uniq else idx
                offered = sorted({uniq.index(q) + 1 for q in _offered_qualifiers(r, quals)})
            traces.append({"id": tid, "pool": tpool, "inp": tidx, "seg": seg, "quals": quals, "entered": inp, "entries": pool,
                           "result": {"offered": offered, "forbidden": r["status"] == "FORBIDDEN", "fill": r["fill"], "flagged": r["flagged"]}})

    def _offered_qualifiers(r, quals):
        return [quals[i - 1] for i in r["offered_raw"]] if "offered_raw" in r else r["offered_names"]

    # project_result maps qualifier names to indices by 'Q<j>' - here the names are arbitrary, so read them directly
    orig = V.project_result

    def project_named(x):
        v = x.validation_result
        st, fill = V.STATUS[str(v.requirement_validation)]
        return {"status": st, "fill": fill, "offered_names": list((v.possible_values or {}).keys()), "flagged": v.format_validation_fulfilled is False}

    V.project_result = project_named
    try:
        asyncio.run(go())
    finally:
        V.project_result = orig
    slim = [{k: v for k, v in t.items() if k not in ("quals", "entered", "entries")} for t in traces]
    t2, acc, diag = validate_traces("PoolTrace", "PoolTrace.cfg", slim, work, tag="pooltrace")
    res.add_tlc(f"PoolTrace: real results for {len(traces)} random pools of 1-14 entries with overlapping qualifier spellings decided by TLC against the pool rules", t2)
    res.count("large_pools", len(traces))
    for t in traces:
        res.distinct(("pool", tuple(t["pool"]), tuple(t["quals"]), t["entered"], t["seg"]))
        if t["id"] not in acc:
            at, exp = diag.get(t["id"], (0, ()))
            res.violation(f"value pool with qualifiers {t['quals']} (entry outcomes {t['entries']}), entered {t['entered']!r}, segment {t['seg']}: code {t['result']}; "
                          f"documented {exp}", {"kind": "large-pool", "quals": t["quals"], "pool": t["pool"], "entered": t["entered"], "seg": t["seg"]})


def run():
    from c02 import merge
    res = Result(PID)
    work = Work(PID)
    thorough = tier() == "thorough"
    pools = all_pools(3)
    seg = ["MUSS.T", "KANN.T", "MUSS.F"]
    mod, cfg = V.write_model(work, "pools", 3, seg, ["MUSS.T"], pools, ["none", "q1", "q2", "q3", "zz"], ["PoolRules", "ExactlyOnceInOrder"])
    dump = work.path("v.dump")
    t = run_tlc(mod, cfg, work, dump=dump, timeout=3000)
    res.add_tlc("Validation: PoolRules for every pool of 1-3 entries over {fulfilled, unfulfilled, unknown, invalid} x 5 inputs below required / optional / "
                "forbidden segments", t)
    with mp.get_context("fork").Pool(16) as pool:
        merge(res, pool.map(_worker, [(str(dump), i, 16, seed()) for i in range(16)]))
    dump.unlink()
    if thorough:
        mod4, cfg4 = V.write_model(work, "pools4", 4, seg, ["MUSS.T"], all_pools(2), ["none", "q1", "q2", "zz"], ["PoolRules"])
        dump4 = work.path("v4.dump")
        t4 = run_tlc(mod4, cfg4, work, dump=dump4, timeout=3000)
        res.add_tlc("Validation: PoolRules with up to two data elements per segment / two segments (<= 4 nodes, pools <= 2 entries)", t4)
        with mp.get_context("fork").Pool(16) as pool:
            merge(res, pool.map(_worker, [(str(dump4), i, 16, seed()) for i in range(16)]))
        dump4.unlink()
    large_pools(res, work, 3000 if thorough else 400)
    res.coverage["traces_validated_against_impl"] = res.coverage.get("validations", 0) + res.coverage.get("large_pools", 0)
    res.coverage["evaluations"] = res.coverage.get("validations", 0) + res.coverage.get("large_pools", 0)
    res.coverage["exhaustive"] = True
    res.coverage["rule"] = ("one case = (pool of 1-3 entries with every combination of entry outcomes incl. unknown and invalid, entered input in {absent/empty, "
                            "each qualifier, a value not in the pool}, parent status): validated through validate_deep_anwendungshandbuch, "
                            "validate_segment (3 group requirements) and validate_data_element_valuepool (3 segment statuses); offered qualifiers and their "
                            "order, accepted/flagged, FILLED/EMPTY and forbidden-ness must equal the documented PoolResult; distinct by tree")
    res.assumptions += ["the REQUIRED/OPTIONAL component of a pool's status is recorded by the code as REQUIRED in all cases and is not judged (DESIGN 6.6b)"]
    return res.finish(work)


def replay(case):
    if "nodes" not in case:          # a case of the large-pool / direct-call families: re-decided by re-running the check
        print("case:", {k: v for k, v in case.items() if k != "kind"})
        print("re-deciding with the quick tier of the check")
        return run()
    return V.replay_case("C17", case)


if __name__ == "__main__":
    main_wrapper(run)
