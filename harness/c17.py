"""C17 - value pools offer exactly the admissible qualifiers and judge input by them (Validation.tla: PoolResult / PoolRules)."""
import asyncio
import copy
import itertools
import multiprocessing as mp
import random

import valcheck as V
from common import MachineryError, Result, Work, dump_states, main_wrapper, run_tlc, seed, tier

PID = "C17"


def all_pools(maxlen):
    out = []
    for n in range(1, maxlen + 1):
        out += list(itertools.product("TFKI", repeat=n))
    return out


async def direct_checks(nodes, obs, sd, idx, acc):
    """the pool added last, validated through validate_data_element_valuepool (three parent statuses) and validate_segment"""
    from ahbicht.models.validation_values import RequirementValidationValue as R
    from ahbicht.validation.validation import validate_data_element_valuepool, validate_segment
    if nodes[-1]["kind"] != "p" or obs["direct"] == ():
        return
    rs = sd * 1000003 + idx
    for st, real_st in (("REQUIRED", R.IS_REQUIRED), ("OPTIONAL", R.IS_OPTIONAL), ("FORBIDDEN", R.IS_FORBIDDEN)):
        deep, exprs, objs = V.build_ahb(nodes, random.Random(rs))
        el = objs[len(nodes)]
        V.setup_cer()
        acc.c("validations")
        try:
            r = V.project_result(await validate_data_element_valuepool(el, real_st))
        except BaseException as e:  # pylint:disable=broad-except
            acc.v(f"validate_data_element_valuepool raised {type(e).__name__} for pool {exprs[len(nodes)]} input {nodes[-1]['inp']} under {st}",
                  V.case_of(nodes, sd, idx, parent=st))
            continue
        s = obs["direct"][st]
        got = ((r["status"] == "FORBIDDEN"), r["fill"], tuple(r["offered"]), r["flagged"])
        exp = ((s["status"] == "FORBIDDEN"), s["fill"], tuple(s["offered"]), s["flagged"])
        if got != exp:
            acc.v(f"value pool {exprs[len(nodes)]} with input {nodes[-1]['inp']} below a {st} segment: code (forbidden, fill, offered, flagged) = {got}, "
                  f"documented {exp}", V.case_of(nodes, sd, idx, parent=st))
    # through validate_segment with an explicit group requirement
    seg_idx = nodes[-1]["par"]
    for preq, pname in ((None, "NONE"), (R.IS_REQUIRED, "REQUIRED"), (R.IS_OPTIONAL, "OPTIONAL")):
        deep, exprs, objs = V.build_ahb(nodes, random.Random(rs))
        V.setup_cer()
        acc.c("validations")
        try:
            rs_ = await validate_segment(objs[seg_idx], preq, True)
        except NotImplementedError:
            continue
        except BaseException as e:  # pylint:disable=broad-except
            acc.v(f"validate_segment raised {type(e).__name__}", V.case_of(nodes, sd, idx, parent=pname))
            continue
        proj = [V.project_result(x) for x in rs_]
        segst = proj[0]["status"]
        mine = [e for e in proj if e["id"] == len(nodes)]
        if segst == "FORBIDDEN":
            if mine:
                acc.v(f"validate_segment reports a value pool below a forbidden segment: {mine}", V.case_of(nodes, sd, idx, parent=pname))
            continue
        if not mine:
            acc.v("validate_segment did not report the value pool of a non-forbidden segment", V.case_of(nodes, sd, idx, parent=pname))
            continue
        s = obs["direct"][segst]
        r = mine[0]
        got = ((r["status"] == "FORBIDDEN"), r["fill"], tuple(r["offered"]), r["flagged"])
        exp = ((s["status"] == "FORBIDDEN"), s["fill"], tuple(s["offered"]), s["flagged"])
        if got != exp:
            acc.v(f"validate_segment (group requirement {pname}): value pool {exprs[len(nodes)]} input {nodes[-1]['inp']}: code {got}, documented {exp}",
                  V.case_of(nodes, sd, idx, parent=pname))


def _worker(args):
    dump, shard, nshards, sd = args
    import ahb  # noqa: F401
    acc = V.Acc()

    async def go():
        idx = -1
        for st in dump_states(dump, shard, nshards):
            idx += 1
            nodes = list(st["nodes"])
            if not nodes or nodes[-1]["kind"] != "p":
                continue
            gi = idx * nshards + shard
            try:
                await V.check_tree("C17", nodes, st["obs"], sd, gi, acc)
                await direct_checks(nodes, st["obs"], sd, gi, acc)
            except Exception as e:
                raise MachineryError(f"harness exception on {nodes}: {type(e).__name__}: {e}") from e
            if len(acc.viol) >= 40:
                break

    asyncio.run(go())
    return acc.viol, acc.samples, acc.counts, acc.distinct


def run():
    from c02 import merge
    res = Result(PID)
    work = Work(PID)
    thorough = tier() == "thorough"
    pools = all_pools(3)
    seg = ["MUSS.T", "KANN.T", "MUSS.F"]
    mod, cfg = V.write_model(work, "pools", 3, seg, ["MUSS.T"], pools, ["none", "q1", "q2", "q3", "zz"], ["PoolRules", "ExactlyOnceInOrder"])
    dump = work.path("v.dump")
    t = run_tlc(mod, cfg, work, dump=dump, timeout=3000)
    res.add_tlc("Validation: PoolRules for every pool of 1-3 entries over {fulfilled, unfulfilled, unknown, invalid} x 5 inputs below required / optional / "
                "forbidden segments", t)
    with mp.get_context("fork").Pool(16) as pool:
        merge(res, pool.map(_worker, [(str(dump), i, 16, seed()) for i in range(16)]))
    dump.unlink()
    if thorough:
        mod4, cfg4 = V.write_model(work, "pools4", 4, seg, ["MUSS.T"], all_pools(2), ["none", "q1", "q2", "zz"], ["PoolRules"])
        dump4 = work.path("v4.dump")
        t4 = run_tlc(mod4, cfg4, work, dump=dump4, timeout=3000)
        res.add_tlc("Validation: PoolRules with up to two data elements per segment / two segments (<= 4 nodes, pools <= 2 entries)", t4)
        with mp.get_context("fork").Pool(16) as pool:
            merge(res, pool.map(_worker, [(str(dump4), i, 16, seed()) for i in range(16)]))
        dump4.unlink()
    res.coverage["traces_validated_against_impl"] = res.coverage.get("validations", 0)
    res.coverage["evaluations"] = res.coverage.get("validations", 0)
    res.coverage["exhaustive"] = True
    res.coverage["rule"] = ("one case = (pool of 1-3 entries with every combination of entry outcomes incl. unknown and invalid, entered input in {absent/empty, "
                            "each qualifier, a value not in the pool}, parent status): validated through validate_deep_anwendungshandbuch, "
                            "validate_segment (3 group requirements) and validate_data_element_valuepool (3 segment statuses); offered qualifiers and their "
                            "order, accepted/flagged, FILLED/EMPTY and forbidden-ness must equal the documented PoolResult; distinct by tree")
    res.assumptions += ["the REQUIRED/OPTIONAL component of a pool's status is recorded by the code as REQUIRED in all cases and is not judged (DESIGN 6.6b)"]
    return res.finish(work)


def replay(case):
    return V.replay_case("C17", case)


if __name__ == "__main__":
    main_wrapper(run)
