"""Scenario engine shared by C12 and C15: for one scenario (an asynchronous entry point + concrete input) it derives the plan
(plans.py), lets TLC check Async.tla on it and dump the state space, extracts the schedules and drives the real code along them."""
import asyncio
import random

import gates as GT
import plans as PL
from common import MachineryError, Result, Work, dump_states, run_tlc


class Scenario:
    def __init__(self, name, plan, factory, evaluators, expect=None, tag_text=False, tag_data=False, project=None, describe="", expected=None):
        self.name = name
        self.plan = PL.number_labels(plan)
        self.factory = factory            # () -> coroutine calling the real entry point
        self.evaluators = evaluators      # list for ahb.use_provider
        self.expect = expect or {}
        self.tag_text, self.tag_data = tag_text, tag_data
        self.project = project or (lambda r: r)
        self.describe = describe
        self.expected = expected          # optional independent expectation for the (projected) result


def reference_run(sc):
    """the result when nothing ever yields"""
    import ahb
    ahb.use_provider(sc.evaluators)
    GT.G.reset(auto=True, tag_text=sc.tag_text, tag_data=sc.tag_data)

    async def go():
        try:
            return "ok", await sc.factory()
        except BaseException as e:  # pylint:disable=broad-except
            return "raised", e

    kind, r = asyncio.run(go())
    return kind, (sc.project(r) if kind == "ok" else f"{type(r).__name__}: {r}"), list(GT.G.started)


def check_scenario(sc, res: Result, work: Work, rng, max_all=400, extra_random=30, sensitivity=False):
    import ahb
    name = sc.name
    mod = work.path(f"MC_{name}.tla")
    mod.write_text(PL.emit_tla(name, sc.plan, sc.expect))
    cfg = work.path(f"MC_{name}.cfg")
    cfg.write_text(PL.cfg_text())
    dump = work.path(f"{name}.dump")
    t = run_tlc(str(mod), str(cfg), work, dump=dump, workers=4, tag=name)
    res.add_tlc(f"Async on plan '{name}' ({sc.describe}): Assoc, OwnContext, NoLostOrDoubleStart over all interleavings", t)
    g = GT.settled_graph(dump_states(dump))
    dump.unlink()
    if sensitivity:
        for gm, cm, inv in sensitivity:
            c2 = work.path(f"MC_{name}_{gm}_{cm}.cfg")
            c2.write_text(PL.cfg_text(gather=gm, ctx=cm, props=()))
            t2 = run_tlc(str(mod), str(c2), work, workers=4, tag=f"{name}-{gm}-{cm}", expect_violation=True)
            res.coverage.setdefault("sensitivity", []).append(
                {"plan": name, "GatherMode": gm, "CtxMode": cm, "violated": t2["violated_invariant"], "expected_to_violate": inv})
    kind, ref, started = reference_run(sc)
    labels = PL.all_labels(sc.plan)
    case0 = {"scenario": name, "describe": sc.describe}
    if sc.expected is not None and (kind, ref) != ("ok", sc.expected):
        res.violation(f"scenario {name} ({sc.describe}): result {ref} but every occurrence paired with its own value gives {sc.expected}",
                      dict(case0, kind="pairing"))
        return
    if sorted(started) != sorted(labels):
        res.violation(f"scenario {name}: the awaitables started by the code {sorted(started)} are not the ones the orchestration model derives "
                      f"{sorted(labels)}", dict(case0, kind="plan"))
        return
    npaths = GT.count_paths(g, max_all)
    if npaths <= max_all:
        paths = GT.all_paths(g)
        mode = "all"
    else:
        paths = GT.covering_paths(g, rng, extra_random=extra_random)
        mode = "transition-cover+random"
    res.coverage.setdefault("plans", []).append({"plan": name, "awaitables": len(labels), "settled_states": len(g),
                                                 "interleavings": npaths if npaths <= max_all else f">{max_all}", "schedules_driven": len(paths), "mode": mode})
    ahb.use_provider(sc.evaluators)

    async def run_all():
        for path in paths:
            GT.G.reset(auto=False, tag_text=sc.tag_text, tag_data=sc.tag_data)
            exp = GT.pending_along(g, path)
            res.count("traces_validated_against_impl")
            res.count("evaluations")
            res.distinct((name, tuple(path)), nontrivial=len(path) >= 2)
            try:
                k, r = await GT.drive(sc.factory, path, exp)
            except GT.ConformanceFailure as e:
                res.violation(f"scenario {name} ({sc.describe}), schedule {path}: {e}", dict(case0, kind="pending", schedule=path, step=e.step))
                return
            got = sc.project(r) if k == "ok" else f"{type(r).__name__}: {r}"
            if (k, got) != (kind, ref):
                res.violation(f"scenario {name} ({sc.describe}): under the completion order {path} the result is {got}, "
                              f"when nothing yields it is {ref}", dict(case0, kind="result", schedule=path))
                return
        if paths:
            res.sample({"plan": name, "what": sc.describe, "one_schedule": paths[len(paths) // 2], "result": str(ref)[:200]}, limit=8)

    asyncio.run(run_all())
