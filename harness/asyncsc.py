"""Scenario engine shared by C12 and C15: for one scenario (an asynchronous entry point + concrete input) it derives the plan
(plans.py), lets TLC check Async.tla on it and dump the state space, extracts the schedules and drives the real code along them."""
import asyncio
import random

import gates as GT
import plans as PL
from common import MachineryError, Result, Work, dump_states, run_tlc


class Scenario:
    def __init__(self, name, plan, factory, evaluators, expect=None, tag_text=False, tag_data=False, project=None, describe="", expected=None):
        self.name = name
        self.plan = PL.number_labels(plan)
        self.factory = factory            # () -> coroutine calling the real entry point
        self.evaluators = evaluators      # list for ahb.use_provider
        self.expect = expect or {}
        self.tag_text, self.tag_data = tag_text, tag_data
        self.project = project or (lambda r: r)
        self.describe = describe
        self.expected = expected          # optional independent expectation for the (projected) result


def reference_run(sc):
    """the result when nothing ever yields"""
    import ahb
    ahb.use_provider(sc.evaluators)
    GT.G.reset(auto=True, tag_text=sc.tag_text, tag_data=sc.tag_data)

    async def go():
        try:
            return "ok", await sc.factory()
        except BaseException as e:  # pylint:disable=broad-except
            return "raised", e

    kind, r = asyncio.run(go())
    return kind, (sc.project(r) if kind == "ok" else f"{type(r).__name__}: {r}"), list(GT.G.started)


def check_scenario(sc, res: Result, work: Work, rng, max_all=400, extra_random=30, sensitivity=False):
    import ahb
    name = sc.name
    mod = work.path(f"MC_{name}.tla")
    mod.write_text(PL.emit_tla(name, sc.plan, sc.expect))
    cfg = work.path(f"MC_{name}.cfg")
    cfg.write_text(PL.cfg_text())
    dump = work.path(f"{name}.dump")
    t = run_tlc(str(mod), str(cfg), work, dump=dump, workers=4, tag=name)
    res.add_tlc(f"Async on plan '{name}' ({sc.describe}): Assoc, OwnContext, NoLostOrDoubleStart over all interleavings", t)
    g = GT.settled_graph(dump_states(dump))
    dump.unlink()
    if sensitivity:
        for gm, cm, inv in sensitivity:
            c2 = work.path(f"MC_{name}_{gm}_{cm}.cfg")
            c2.write_text(PL.cfg_text(gather=gm, ctx=cm, props=()))
            t2 = run_tlc(str(mod), str(c2), work, workers=4, tag=f"{name}-{gm}-{cm}", expect_violation=True)
            res.coverage.setdefault("sensitivity", []).append(
                {"plan": name, "GatherMode": gm, "CtxMode": cm, "violated": t2["violated_invariant"], "expected_to_violate": inv})
    kind, ref, started = reference_run(sc)
    labels = PL.all_labels(sc.plan)
    case0 = {"scenario": name, "describe": sc.describe}
    if sc.expected is not None and (kind, ref) != ("ok", sc.expected):
        res.violation(f"scenario {name} ({sc.describe}): result {ref} but every occurrence paired with its own value gives {sc.expected}",
                      dict(case0, kind="pairing"))
        return
    obs_problem = observation_mismatch(labels, started)
    if obs_problem:
        res.violation(f"scenario {name} ({sc.describe}): {obs_problem}", dict(case0, kind="observation"))
        return
    if unobserved(labels, started):
        res.coverage.setdefault("unobserved_in_no_yield_run", []).append({"plan": name, "missing": unobserved(labels, started)})
    ahb.use_provider(sc.evaluators)
    if sorted(GT._base(l) for l in started) != sorted(GT._base(l) for l in labels):
        # the code starts other awaitables than the orchestration model derives (e.g. after a refactoring of the gathers): that alone is no
        # violation of the property - explore the real schedules without the specification's guidance
        res.coverage.setdefault("plan_divergences", []).append({"plan": name, "model": sorted(labels), "code": sorted(started)})
        free_exploration(sc, res, rng, kind, ref, labels, case0, n=max(60, extra_random * 3))
        return
    npaths = GT.count_paths(g, max_all)
    if npaths <= max_all:
        paths = GT.all_paths(g)
        mode = "all"
    else:
        paths = GT.covering_paths(g, rng, extra_random=extra_random)
        mode = "transition-cover+random"
    res.coverage.setdefault("plans", []).append({"plan": name, "awaitables": len(labels), "settled_states": len(g),
                                                 "interleavings": npaths if npaths <= max_all else f">{max_all}", "schedules_driven": len(paths), "mode": mode})
    diverged = []

    async def run_all():
        for path in paths:
            GT.G.reset(auto=False, tag_text=sc.tag_text, tag_data=sc.tag_data)
            exp = GT.pending_along(g, path)
            res.count("traces_validated_against_impl")
            res.count("evaluations")
            res.distinct((name, tuple(path)), nontrivial=len(path) >= 2)
            try:
                k, r = await GT.drive(sc.factory, path, exp)
            except GT.ConformanceFailure as e:
                diverged.append({"plan": name, "schedule": path, "step": e.step, "code_pending": sorted(e.real), "model_pending": sorted(e.expected)})
                return
            got = sc.project(r) if k == "ok" else f"{type(r).__name__}: {r}"
            if (k, got) != (kind, ref):
                res.violation(f"scenario {name} ({sc.describe}): under the completion order {path} the result is {got}, "
                              f"when nothing yields it is {ref}", dict(case0, kind="result", schedule=path))
                return
            p2 = observation_mismatch(labels, list(GT.G.started))
            if p2:
                res.violation(f"scenario {name} ({sc.describe}), completion order {path}: {p2}", dict(case0, kind="observation", schedule=path))
                return
        if paths:
            res.sample({"plan": name, "what": sc.describe, "one_schedule": paths[len(paths) // 2], "result": str(ref)[:200]}, limit=8)

    asyncio.run(run_all())
    if diverged:
        # the real pending set differs from the model's at some step: the orchestration model does not describe this code; that is not by
        # itself a violation of C12/C15, so the schedules are explored on the real code directly
        res.coverage.setdefault("plan_divergences", []).append(diverged[0])
        free_exploration(sc, res, rng, kind, ref, labels, case0, n=max(60, extra_random * 3))


def check_large_scenario(sc, res: Result, rng, n=150):
    """scenarios whose gathers are too wide for an exhaustive exploration of Async.tla (more than 32 awaitables in one gather: 2^n settled states): the
    positional pairing is what TLC checks on the small plans; here the real code is driven along seeded random completion orders of the real pending sets
    and every result must be the one obtained when nothing yields (and the independently computed one, if the scenario has it)"""
    kind, ref, started = reference_run(sc)
    case0 = {"scenario": sc.name, "describe": sc.describe}
    if sc.expected is not None and (kind, ref) != ("ok", sc.expected):
        res.violation(f"scenario {sc.name} ({sc.describe}): result {str(ref)[:400]} but every occurrence paired with its own value gives {str(sc.expected)[:400]}",
                      dict(case0, kind="pairing"))
        return
    res.coverage.setdefault("plans", []).append({"plan": sc.name, "awaitables": len(started), "mode": f"{n} seeded random completion orders (too wide for TLC)"})
    free_exploration(sc, res, rng, kind, ref, [], case0, n=n)


def _strip(label):
    """'fc:901@a1#2' -> (('fc', '901'), 'a1')"""
    base = label.rsplit("#", 1)[0]
    head, _, tag = base.partition("@")
    k, _, key = head.partition(":")
    return (k, key), tag


def observation_mismatch(model_labels, started_labels):
    """what the awaitables OBSERVED (text handed to an FC evaluator, data seen by an evaluator) - independent of how the code groups its gathers:
    for every (kind, key) every observed tag must be one the model derives for that key (its own data element's text / its own evaluation's data).
    An expected observation that does not occur (the code did not start that awaitable at all: short cut, de-duplication, nothing to check for an
    element without input) is NOT a violation by itself - whether the consumer still got ITS value is decided on the results."""
    exp, got = {}, {}
    for l in model_labels:
        k, t = _strip(l)
        exp.setdefault(k, set()).add(t)
    for l in started_labels:
        k, t = _strip(l)
        got.setdefault(k, set()).add(t)
    for k in sorted(set(exp) & set(got)):
        if got[k] - exp[k]:
            return (f"the {k[0]} awaitable(s) for key {k[1]} observed {sorted(got[k])} (text handed to the evaluator / data of the evaluation), "
                    f"each evaluation / data element having its own gives {sorted(exp[k])}")
    return None


def unobserved(model_labels, started_labels):
    """expected observations that did not occur (reported in the evidence, never a violation)"""
    exp, got = {}, {}
    for l in model_labels:
        k, t = _strip(l)
        exp.setdefault(k, set()).add(t)
    for l in started_labels:
        k, t = _strip(l)
        got.setdefault(k, set()).add(t)
    return {f"{k[0]}:{k[1]}": sorted(exp[k] - got.get(k, set())) for k in sorted(exp) if exp[k] - got.get(k, set())}


def free_exploration(sc, res, rng, kind, ref, labels, case0, n):
    """schedules chosen on the real pending sets (no model): results must still equal the no-yield result and every awaitable must observe its own context"""
    import ahb
    ahb.use_provider(sc.evaluators)

    async def one(seq_rng):
        GT.G.reset(auto=False, tag_text=sc.tag_text, tag_data=sc.tag_data)
        task = asyncio.ensure_future(sc.factory())
        order = []
        for _ in range(10000):
            await GT.quiesce()
            pend = sorted(l for l, f in GT.G.pending.items() if not f.done())
            if not pend:
                break
            l = seq_rng.choice(pend)
            order.append(l)
            GT.G.release(l)
        await GT.quiesce()
        if not task.done():
            task.cancel()
            return order, "stuck", None
        try:
            return order, "ok", task.result()
        except BaseException as e:  # pylint:disable=broad-except
            return order, "raised", e

    async def run_all():
        for i in range(n):
            order, k, r = await one(random.Random(rng.random()))
            res.count("evaluations")
            res.count("schedules_explored_without_model")
            got = sc.project(r) if k == "ok" else (f"{type(r).__name__}: {r}" if k == "raised" else "the call never finished")
            if (k, got) != (kind, ref):
                res.violation(f"scenario {sc.name} ({sc.describe}): under the completion order {order} the result is {got}, when nothing yields it is {ref}",
                              dict(case0, kind="result", schedule=order))
                return
            p2 = observation_mismatch(labels, list(GT.G.started))
            if p2:
                res.violation(f"scenario {sc.name} ({sc.describe}), completion order {order}: {p2}", dict(case0, kind="observation", schedule=order))
                return

    asyncio.run(run_all())
