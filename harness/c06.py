"""C06 - validity is structural; evaluation and the validity check agree (Eval.tla: ValidityIsStructural)."""
import evalcheck as E
from common import Result, Work, main_wrapper, run_tlc, tier

PID = "C06"
INV = ["TypeOK", "MachineAgreesWithDen", "NeutralIffNoRC", "ValidityIsStructural"]


def run():
    res = Result(PID)
    work = Work(PID)
    thorough = tier() == "thorough"
    n = 4 if thorough else 3
    cfg = E.write_cfg(work, "eval.cfg", n, False, INV)
    dump = work.path("eval.dump")
    t = run_tlc("Eval", cfg, work, dump=dump, timeout=3000)
    res.add_tlc(f"Eval: invalid <=> not SValid(tree) for every program <= {n} leaves under every assignment", t)
    E.replay_dump("C06", dump, res, stride=3 if thorough else 1)
    dump.unlink()
    if thorough:
        cfg3 = E.write_cfg(work, "eval3.cfg", 3, False, INV, hints=(501, 502))
        dump3 = work.path("eval3.dump")
        t3 = run_tlc("Eval", cfg3, work, dump=dump3)
        res.add_tlc("Eval: <= 3 leaves with two hint keys, every state replayed", t3)
        E.replay_dump("C06", dump3, res)
        dump3.unlink()
    E.deep_validity(res, work, 3000 if thorough else 500)
    res.coverage["traces_validated_against_impl"] += res.coverage.get("ahb_evaluations", 0) + res.coverage.get("validity_checks", 0)
    res.coverage["exhaustive"] = not thorough
    res.coverage["rule"] = (f"every program <= {n} leaves x every RC assignment: requirement_constraint_evaluation raises the invalid-expression "
                            "error iff the spec says the tree is structurally invalid; the same through evaluate_ahb_expression_tree with the "
                            "expression as single part, as second part after 'Muss [2]' and as first part before 'Kann [1]'; "
                            "is_valid_expression once per tree (single and two-part form); non-trivial = at least one composition")
    res.assumptions += ["programs whose juxtaposition is outside the documented domain (spec state 'unsupported') are only checked for "
                        "'NotImplementedError, nothing else'", "is_valid_expression is fed AHB expressions (indicator + condition), as documented"]
    return res.finish(work)


def replay(case):
    import asyncio
    import random
    import ahb
    ahb.configure()
    E._KM.clear(); E._KM_INV.clear()
    for k, v in (case.get("keymap") or {}).items():
        E._KM[int(k)] = v
        E._KM_INV[v] = int(k)
    asg = {int(k): v for k, v in case["asg"].items()}
    acc = E.Acc()
    got = asyncio.run(E.eval_real(case["expr"], asg))
    print("expression:", case["expr"], asg, "-> code", got.get("err") or "evaluates", "; spec:", case.get("spec_err") or "valid")
    rc = 0 if got["err"] == case.get("spec_err") else 1
    asyncio.run(E.check_validity_entry_points(case["expr"], E._tuplify(case["tree"]), asg, case.get("spec_err"), acc, case, random.Random(0)))
    for d, _ in acc.viol:
        print("  ", d)
    return 1 if (rc or acc.viol) else 0


if __name__ == "__main__":
    main_wrapper(run)
