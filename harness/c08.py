"""C08 - format-constraint evaluation is Boolean and explains every failure (FcEval.tla, FcEvalTrace.tla)."""
import asyncio
import itertools
import multiprocessing as mp
import random
import re

import evalcheck as E
from common import MachineryError, Result, Work, dump_states, main_wrapper, run_tlc, seed, tier, to_tla, validate_traces

PID = "C08"
KEYS = (901, 902, 903)


def b_of(state):
    b = state["b"]
    if isinstance(b, tuple):
        return {i + 1: v for i, v in enumerate(b)}
    return dict(b)


def msg_tokens(msg):
    if msg is None:
        return ()
    return tuple(int(m) if m.isdigit() else "XX" for m in re.findall(r"E(\d+)|(Zwei exklusive)", msg) for m in [m[0] or "XX"])


def make_method_evaluator(b):
    """an FcEvaluator with evaluate_<key> methods (alternately sync / async) that return NO message: exercises the
    default-message path of FcEvaluator.evaluate_single_format_constraint"""
    from ahbicht.content_evaluation.fc_evaluators import FcEvaluator
    from ahbicht.models.condition_nodes import EvaluatedFormatConstraint
    ns = {}
    for i, (k, v) in enumerate(sorted(b.items())):
        if i % 2 == 0:
            def m(self, entered_input, _v=v):
                return EvaluatedFormatConstraint(_v, None)
        else:
            async def m(self, entered_input, _v=v):
                await asyncio.sleep(0)
                return EvaluatedFormatConstraint(_v, None)
        ns[f"evaluate_{k}"] = m
    return type("MethodFc", (FcEvaluator,), ns)()


async def check_state(st, idx, acc, sd):
    import ahb
    from ahbicht.expressions.condition_expression_parser import parse_condition_expression_to_tree
    from ahbicht.expressions.format_constraint_expression_evaluation import evaluate_format_constraint_tree, format_constraint_evaluation
    from ahbicht.models.condition_nodes import EvaluatedFormatConstraint
    tree = st["trees"][0]
    top = st["stack"][0]
    b = b_of(st)
    rng = random.Random(sd * 1000003 + idx)
    expr = E.render(tree, rng) if rng.random() < 0.6 else E.render_minimal(tree, rng)
    # the minimal rendering relies on precedence: it denotes `tree` only if no same-operator regrouping matters; and/or/xor are
    # associative on Booleans, messages are compared for presence only
    case = {"expr": expr, "tree": tree, "b": b, "spec": top}
    exp_ok, exp_msg = top["ok"], top["msg"] != ()
    acc.count("evaluations")
    if not E.is_leaf(tree):
        acc.distinct.add(E._h((tree, tuple(sorted(b.items())))))
    # (a) through the string entry point with the shipped CER-based evaluator (false keys carry message E<k>)
    ahb.use_cer_evaluators()
    try:
        ok, msg = await E.fc_eval_real(expr, b)
    except BaseException as e:  # pylint:disable=broad-except
        acc.v(f"format_constraint_evaluation('{expr}') under {b} raised {type(e).__name__}: {e}", case)
        return
    if ok != exp_ok:
        acc.v(f"format_constraint_evaluation('{expr}') under {b} = {ok}, the Boolean value is {exp_ok}", case)
    elif (msg is not None) != exp_msg:
        acc.v(f"format_constraint_evaluation('{expr}') under {b}: fulfilled={ok} but error message {'present' if msg else 'absent'} ({msg!r})", case)
    elif msg_tokens(msg) != tuple(top["msg"]):
        acc.count("message_content_differences_not_judged")
    # (b) through the tree entry point
    inputs = {str(k): EvaluatedFormatConstraint(v, None if v else f"E{k}") for k, v in b.items()}
    try:
        parsed = parse_condition_expression_to_tree(expr)
        # the SAME tree object is first evaluated under the complementary truth assignment: evaluation must leave nothing behind in the caller's tree
        try:
            evaluate_format_constraint_tree(parsed, {str(k): EvaluatedFormatConstraint(not v, f"E{k}" if v else None) for k, v in b.items()})
        except BaseException:  # pylint:disable=broad-except  # noqa: BLE001 - only the judged evaluation counts
            pass
        r = evaluate_format_constraint_tree(parsed, inputs)
        if r.format_constraint_fulfilled != exp_ok or (r.error_message is not None) != exp_msg:
            acc.v(f"evaluate_format_constraint_tree('{expr}') under {b} = ({r.format_constraint_fulfilled}, {r.error_message!r}), "
                  f"expected fulfilled={exp_ok}, message {'present' if exp_msg else 'absent'}", case)
    except BaseException as e:  # pylint:disable=broad-except
        acc.v(f"evaluate_format_constraint_tree('{expr}') under {b} raised {type(e).__name__}", case)
    # (c) method-based evaluator without messages: the default message must make "message iff unfulfilled" hold as well
    if idx % 5 == 0:
        ahb.use_provider([make_method_evaluator(b)])
        try:
            ok2, msg2 = await E.fc_eval_real(expr, b)
            if ok2 != exp_ok or (msg2 is not None) != exp_msg:
                acc.v(f"format_constraint_evaluation('{expr}') with method-based evaluators returning no message under {b} = "
                      f"({ok2}, {msg2!r}), expected fulfilled={exp_ok}, message {'present' if exp_msg else 'absent'}", dict(case, evaluator="methods"))
            acc.count("default_message_path_evaluations")
        except BaseException as e:  # pylint:disable=broad-except
            acc.v(f"format_constraint_evaluation('{expr}') with method-based evaluators raised {type(e).__name__}: {e}", dict(case, evaluator="methods"))
        finally:
            ahb.use_cer_evaluators()
    if len(acc.samples) < 3 and not E.is_leaf(tree) and rng.random() < 0.01:
        acc.samples.append({"expr": expr, "b": b, "spec": {"ok": exp_ok, "msg": list(top["msg"])}, "code": [ok, msg]})


def _worker(args):
    dump, shard, nshards, sd = args
    import ahb
    ahb.configure()
    acc = E.Acc()

    async def go():
        idx = -1
        for st in dump_states(dump, shard, nshards):
            idx += 1
            if len(st["stack"]) != 1:
                continue
            try:
                await check_state(st, idx * nshards + shard, acc, sd)
            except Exception as e:
                raise MachineryError(f"harness exception on {st}: {type(e).__name__}: {e}") from e

    asyncio.run(go())
    return acc.viol, acc.samples, acc.counts, acc.distinct


def install_fc_tracer(sink):
    import ahbicht.expressions.format_constraint_expression_evaluation as mod
    from lark import v_args
    base = getattr(mod, "_verif_original_transformer", None) or mod.FormatConstraintTransformer
    mod._verif_original_transformer = base
    J = lambda n: {"ok": bool(n.format_constraint_fulfilled), "has_msg": n.error_message is not None}

    @v_args(inline=True)
    class Tracing(base):
        def condition(self, token):
            r = super().condition(token)
            sink.append({"op": "leaf", "key": int(token.value), "res": J(r)})
            return r

        def and_composition(self, *args):
            r = super().and_composition(*args)
            sink.append({"op": "and", "l": J(args[0]), "r": J(args[1]), "res": J(r)} if len(args) == 2 else {"op": "skip"})
            return r

        def or_composition(self, *args):
            r = super().or_composition(*args)
            sink.append({"op": "or", "l": J(args[0]), "r": J(args[1]), "res": J(r)} if len(args) == 2 else {"op": "skip"})
            return r

        def xor_composition(self, *args):
            r = super().xor_composition(*args)
            sink.append({"op": "xor", "l": J(args[0]), "r": J(args[1]), "res": J(r)} if len(args) == 2 else {"op": "skip"})
            return r

    mod.FormatConstraintTransformer = Tracing
    return mod, base


def random_fc_tree(rng, leaves, keys):
    if leaves == 1:
        return ("leaf", "fc", rng.choice(keys))
    k = rng.randint(1, leaves - 1)
    return (rng.choice(["and", "or", "xor"]), random_fc_tree(rng, k, keys), random_fc_tree(rng, leaves - k, keys))


def trace_validation(res, work, n):
    import ahb
    ahb.configure()
    rng = random.Random(seed() * 31 + 5)
    sink = []
    try:
        mod, base = install_fc_tracer(sink)
    except Exception:  # pylint:disable=broad-except
        res.coverage["callback_tracing"] = "not available for this code (transformer callbacks could not be recorded)"
        return
    traces = []
    keys = list(range(901, 911))

    async def go():
        for tid in range(1, n + 1):
            t = random_fc_tree(rng, rng.randint(2, 20), keys)
            expr = E.render(t, rng) if rng.random() < 0.5 else E.render_minimal(t, rng)
            b = {k: rng.random() < 0.5 for k in keys}
            del sink[:]
            await E.fc_eval_real(expr, b)
            traces.append({"id": tid, "events": list(sink), "expr": expr, "b": b})

    try:
        asyncio.run(go())
    finally:
        mod.FormatConstraintTransformer = base
    skipped = [t for t in traces if any(e["op"] == "skip" for e in t["events"])]
    traces = [t for t in traces if t not in skipped]     # (runs without any recorded callback stay: they are decided on the second level)
    res.coverage["traces_with_n_ary_callbacks_skipped"] = len(skipped)
    slim = [{"id": t["id"], "events": t["events"]} for t in traces]
    if not slim:
        return
    t2, acc, diag = validate_traces("FcEvalTrace", "FcEvalTrace.cfg", slim, work, tag="fctrace")
    res.add_tlc("FcEvalTrace: recorded callbacks of the real FormatConstraintTransformer on random expressions <= 20 leaves", t2)
    res.count("traces_validated_against_impl", len(traces))
    rejected = []
    for t in traces:
        res.distinct(("trace", t["expr"], tuple(sorted(t["b"].items()))))
        if t["id"] not in acc:
            rejected.append(t)
    if not rejected:
        return
    # second level: a run whose callbacks the machine does not reproduce (lazy evaluation, shared sub-expressions, no callbacks at all) contradicts C08
    # only if its RESULT does: evaluated once more without the recording subclass and decided by TLC (FcResultTrace.tla)
    second = []

    async def again():
        for t in rejected:
            ok, msg = await E.fc_eval_real(t["expr"], t["b"])
            second.append({"id": t["id"], "b": [[k, v] for k, v in sorted(t["b"].items())], "tree": fc_tree_of(t["expr"]),
                           "final": {"ok": bool(ok), "has_msg": msg is not None}})

    asyncio.run(again())
    t3, acc3, diag3 = validate_traces("FcResultTrace", "FcResultTrace.cfg", second, work, tag="fcresult")
    res.add_tlc(f"FcResultTrace: {len(second)} runs whose callbacks the machine does not reproduce, decided on their results", t3)
    res.coverage["runs_with_other_callback_structure_but_correct_result"] = len([x for x in second if x["id"] in acc3])
    for t, x in zip(rejected, second):
        if x["id"] not in acc3:
            at, exp = diag.get(t["id"], (0, ()))
            ev = t["events"][at - 1] if 0 < at <= len(t["events"]) else None
            res.violation(f"recorded evaluation of '{t['expr']}' is not a behaviour of FcEval.tla: event {at} {ev}; the spec computes {exp}; and its result "
                          f"{x['final']} contradicts the Boolean reading {diag3.get(x['id'], (0, ()))[1]}",
                          {"kind": "trace", "expr": t["expr"], "b": t["b"], "event_index": at})


def fc_tree_of(expr):
    """format-constraint expression -> syntax tree (lists) via the real parser"""
    import ahb
    from ahbicht.expressions.condition_expression_parser import parse_condition_expression_to_tree

    def conv(n):
        return ["leaf", "fc", int(n[2])] if n[0] == "leaf" else [n[0], conv(n[1]), conv(n[2])]

    return conv(ahb.cond_tree_binary(parse_condition_expression_to_tree(expr)))


def run():
    res = Result(PID)
    work = Work(PID)
    thorough = tier() == "thorough"
    n = 4 if thorough else 3
    cfg = work.path("fc.cfg")
    cfg.write_text(f"CONSTANTS\n MaxLeaves = {n}\n FcKeys = {to_tla(set(KEYS))}\nINIT Init\nNEXT Next\nINVARIANT IsBoolean\nINVARIANT MsgIffNotOk\nCHECK_DEADLOCK FALSE\n")
    dump = work.path("fc.dump")
    t = run_tlc("FcEval", str(cfg), work, dump=dump)
    res.add_tlc(f"FcEval: machine = Boolean value, message iff unfulfilled; all programs <= {n} leaves over 3 keys x all truth assignments", t)
    if not thorough:
        t4 = run_tlc("FcEval", "FcEval_q.cfg", work)
        res.add_tlc("FcEval: same invariants <= 4 leaves (spec level only)", t4)
    with mp.get_context("fork").Pool(16) as pool:
        outs = pool.map(_worker, [(str(dump), i, 16, seed()) for i in range(16)])
    for viol, samples, counts, distinct in outs:
        for d, c in viol:
            res.violation(d, c)
        for s in samples:
            res.sample(s)
        for k, v in counts.items():
            if k != "violations":
                res.count(k, v)
        res.merge_distinct(distinct)
    res.coverage["traces_validated_against_impl"] += res.coverage.get("evaluations", 0)
    dump.unlink()
    # absent / empty expression counts as fulfilled
    import ahb
    ahb.configure()
    from ahbicht.expressions.format_constraint_expression_evaluation import format_constraint_evaluation
    for empty in (None, ""):
        try:
            r = asyncio.run(format_constraint_evaluation(empty))
            if r.format_constraints_fulfilled is not True or r.error_message is not None:
                res.violation(f"format_constraint_evaluation({empty!r}) = {r}; an absent/empty expression counts as fulfilled", {"expr": empty})
        except BaseException as e:  # pylint:disable=broad-except
            res.violation(f"format_constraint_evaluation({empty!r}) raised {type(e).__name__}; an absent/empty expression counts as fulfilled", {"expr": empty})
        res.count("evaluations")
    trace_validation(res, work, 3000 if thorough else 500)
    E.unit_test_suite_traces(res, work, "fc")
    res.coverage["exhaustive"] = True
    res.coverage["rule"] = (f"every FC-only program <= {n} leaves over keys 901-903 (repetition allowed) x every truth assignment; evaluated through "
                            "format_constraint_evaluation (CER-based evaluator with messages; every 5th also with method-based sync/async evaluators "
                            "that return no message) and evaluate_format_constraint_tree; non-trivial = at least one composition")
    res.assumptions += ["C08 precondition: a single constraint carries a message iff it is unfulfilled (DESIGN 6.4)",
                        "message texts are compared for presence; their content is counted, not judged"]
    return res.finish(work)


def replay(case):
    import ahb
    ahb.configure()
    if "b" not in case:
        return run()
    b = {int(k): v for k, v in case["b"].items()}
    if case.get("evaluator") == "methods":
        ahb.use_provider([make_method_evaluator(b)])
    ok, msg = asyncio.run(E.fc_eval_real(case["expr"], b))
    print("expression:", case["expr"], b, "-> code", (ok, msg), "; spec", case.get("spec"))
    spec = case.get("spec")
    if spec:
        return 0 if (ok == spec["ok"] and (msg is not None) == (len(spec["msg"]) > 0)) else 1
    return 0


if __name__ == "__main__":
    main_wrapper(run)
