"""C16 - an invalid expression makes one node optional and never aborts validation (Validation.tla: Containment)."""
import valcheck as V
from common import Result, Work, main_wrapper, run_tlc, tier

PID = "C16"
LABELS = ["INV.T", "MUSS.T", "MUSS.F", "KANN.T", "SOLL.T", "MUSS.K", "PFX.T"]
POOLS = [("I", "F"), ("F", "I"), ("I", "T"), ("T", "F"), ("I", "I"), ("I",)]


def run():
    res = Result(PID)
    work = Work(PID)
    thorough = tier() == "thorough"
    n = 5 if thorough else 4
    labs = ["INV.T", "MUSS.T", "MUSS.F", "KANN.T", "SOLL.T"] if thorough else LABELS        # (one node deeper over 5 labels in the thorough tier)
    pools = POOLS[:4] if thorough else POOLS
    mod, cfg = V.write_model(work, "inv", n, labs, labs, pools, ["none", "q1", "q2", "zz"], ["Containment", "ExactlyOnceInOrder", "PoolRules"])
    dump = work.path("v.dump")
    t = run_tlc(mod, cfg, work, dump=dump, timeout=3000)
    res.add_tlc(f"Validation: Containment on every AHB <= {n} nodes with INVALID at every subset of nodes (groups, segments, free text, pool entries)", t)
    V.replay_dump("C16", dump, res, stride=(40 if thorough else 12))
    dump.unlink()
    V.large_metamorphic("C16", res, 600 if thorough else 60)
    res.coverage["exhaustive"] = False
    res.coverage["rule"] = ("one case = an AHB tree with at least one invalid expression (on a group, segment, free-text element or value-pool entry): the real "
                            "validation must not abort, must report the node optional with a hint, and every other node exactly as for the AHB in "
                            "which the invalid expressions are replaced by 'Kann' (both validated by the real code), and as the documented walk; "
                            f"seeded 1/{40 if thorough else 12} sample of all trees <= {n} nodes over {len(labs)} labels; non-trivial = at least 2 nodes")
    return res.finish(work)


def replay(case):
    return V.replay_case("C16", case)


if __name__ == "__main__":
    main_wrapper(run)
