"""Spec -> code replay for spec/Dispatch.tla (beyond the listed properties; run by ./check-extras): every state TLC reaches is one evaluator
configuration plus a history of calls; the same configuration is built from the real base classes (method table = dynamically created subclass,
dictionary based, ContentEvaluationResult based), the same calls are made in the same order on ONE instance, and every result is projected to the
specification's result values and compared."""
import asyncio

import ahb
from ahbicht.content_evaluation.evaluationdatatypes import EvaluatableData, EvaluationContext
from ahbicht.content_evaluation.fc_evaluators import (
    ContentEvaluationResultBasedFcEvaluator,
    DictBasedFcEvaluator,
    FcEvaluator,
    text_to_be_evaluated_by_format_constraint,
)
from ahbicht.content_evaluation.rc_evaluators import ContentEvaluationResultBasedRcEvaluator, DictBasedRcEvaluator, RcEvaluator
from ahbicht.expressions.hints_provider import ContentEvaluationResultBasedHintsProvider, DictBasedHintsProvider, HintsProvider
from ahbicht.expressions.package_expansion import ContentEvaluationResultBasedPackageResolver, DictBasedPackageResolver
from ahbicht.models.condition_nodes import EvaluatedFormatConstraint
from ahbicht.models.content_evaluation_result import ContentEvaluationResult, ContentEvaluationResultSchema
from ahbicht.models.evaluation_results import FormatConstraintEvaluationResult
from common import dump_states, run_tlc

VAL = {"1": ahb.CFV.FULFILLED, "2": ahb.CFV.UNFULFILLED}
VAL_INV = {v: k for k, v in VAL.items()}
TEXT = "2022-12-31T23:00:00+00:00"          # start of a German Stromtag: the shipped 932 accepts it
_schema = ContentEvaluationResultSchema()


def _efc(kind):
    return {"ok": lambda: EvaluatedFormatConstraint(True, None), "ok_msg": lambda: EvaluatedFormatConstraint(True, "m"),
            "fail_msg": lambda: EvaluatedFormatConstraint(False, "m"), "fail_nomsg": lambda: EvaluatedFormatConstraint(False, None),
            "wrong_type": lambda: FormatConstraintEvaluationResult(format_constraints_fulfilled=False, error_message=None)}[kind]()


def _data(body=None):
    return EvaluatableData(body=body, edifact_format=ahb.FMT, edifact_format_version=ahb.FV)


class Subject:
    """the evaluator under test + what its methods observed"""

    def __init__(self, kind, impl, cfg):
        self.kind, self.impl, self.cfg, self.log = kind, impl, cfg, []
        self.data = _data("body")
        getattr(self, f"_make_{kind}")()

    # -- requirement constraints
    def _make_rc(self):
        present = {k: VAL[k] for k, m in self.cfg.items() if m != "absent"}
        if self.impl == "dict":
            self.obj = DictBasedRcEvaluator(present)
        elif self.impl == "cer":
            self.obj = ContentEvaluationResultBasedRcEvaluator()
            self.data = _data(_schema.dump(ContentEvaluationResult(hints={}, format_constraints={}, requirement_constraints=present)))
        else:
            log = self.log
            ns = {"_get_default_context": lambda self_: EvaluationContext(scope="default")}
            for k, m in self.cfg.items():
                if m == "sync":
                    def meth(self_, data, context, _k=k):
                        log.append((_k, data, context))
                        return VAL[_k]
                elif m == "async":
                    async def meth(self_, data, context, _k=k):
                        await asyncio.sleep(0)
                        log.append((_k, data, context))
                        return VAL[_k]
                else:
                    continue
                ns[f"evaluate_{k}"] = meth
            self.obj = type("RcUnderTest", (RcEvaluator,), ns)()

    # -- format constraints
    def _make_fc(self):
        present = {k: m[1] for k, m in self.cfg.items() if m[0] != "absent"}
        if self.impl == "dict":
            self.obj = DictBasedFcEvaluator({k: _efc(r) for k, r in present.items()})
        elif self.impl == "cer":
            self.obj = ContentEvaluationResultBasedFcEvaluator()
            ahb.configure()
            ahb.set_cer(ContentEvaluationResult(hints={}, requirement_constraints={}, format_constraints={k: _efc(r) for k, r in present.items()}))
        else:
            log = self.log
            ns = {}
            for k, m in self.cfg.items():
                if m[0] == "sync":
                    def meth(self_, entered_input, _k=k, _r=m[1]):
                        log.append((_k, entered_input))
                        return _efc(_r)
                elif m[0] == "async":
                    async def meth(self_, entered_input, _k=k, _r=m[1]):
                        await asyncio.sleep(0)
                        log.append((_k, entered_input))
                        return _efc(_r)
                else:
                    continue
                ns[f"evaluate_{k}"] = meth
            self.obj = type("FcUnderTest", (FcEvaluator,), ns)()

    # -- hints
    def _make_hints(self):
        table, style = self.cfg
        present = {k: f"hint of {k}" for k, v in table.items() if v == "text"}
        if self.impl == "dict":
            self.obj = DictBasedHintsProvider(present)
        elif self.impl == "cer":
            self.obj = ContentEvaluationResultBasedHintsProvider()
            ahb.configure()
            ahb.set_cer(ContentEvaluationResult(hints=present, requirement_constraints={}, format_constraints={}))
        else:
            if style == "sync":
                def get_hint_text(self_, condition_key):
                    return present.get(condition_key)
            else:
                async def get_hint_text(self_, condition_key):
                    await asyncio.sleep(0)
                    return present.get(condition_key)
            self.obj = type("HintsUnderTest", (HintsProvider,), {"get_hint_text": get_hint_text})()

    # -- packages
    def _make_pkg(self):
        table = {k: (f"expr of {k}" if v == "expr" else None) for k, v in self.cfg.items() if v != "missing"}
        if self.impl == "dict":
            self.obj = DictBasedPackageResolver(table)
        else:
            self.obj = ContentEvaluationResultBasedPackageResolver()
            self.obj.edifact_format = ahb.FMT
            ahb.configure()
            ahb.set_cer(ContentEvaluationResult(hints={}, requirement_constraints={}, format_constraints={},
                                               packages={k: v for k, v in table.items() if v is not None}))

    # ---------------------------------------------------------------- one call, projected to the specification's result value
    async def call(self, c):
        self.log.clear()
        try:
            return await getattr(self, "_call_" + c[0])(*c[1:])
        except (NotImplementedError, ValueError, KeyError) as e:
            return ("raise", type(e).__name__)

    def _ctx(self, name):
        return None if name == "none" else EvaluationContext(scope=name)

    def _rc_value(self, k, value):
        seen = "unused"
        if self.impl == "methods":
            scopes = {ctx.scope for (lk, data, ctx) in self.log if lk == k and data == self.data}
            foreign = [1 for (lk, data, ctx) in self.log if lk == k and data != self.data]
            seen = next(iter(scopes)) if len(scopes) == 1 and not foreign else ("ambiguous", sorted(map(str, scopes)), len(foreign))
        return {"key": VAL_INV.get(value, repr(value)), "ctx": seen}

    async def _call_rc_one(self, k, c):
        v = await self.obj.evaluate_single_condition(k, self.data, self._ctx(c))
        return ("ok", self._rc_value(k, v))

    async def _call_rc_many(self, ks, cm):
        ctxs = None if cm[0] == "nomap" else {k: self._ctx(v) for k, v in dict(cm[1]).items()}
        res = await self.obj.evaluate_conditions(list(ks), self.data, ctxs)
        return ("ok", {k: self._rc_value(k, v) for k, v in res.items()})

    def _fc_value(self, k, r):
        if not isinstance(r, EvaluatedFormatConstraint):
            return ("other", repr(r))
        if self.impl == "methods" and any(t != TEXT for (lk, t) in self.log if lk == k):
            return ("foreign text", [t for (lk, t) in self.log if lk == k])
        msg = "none" if r.error_message is None else ("m" if r.error_message == "m" else "some other message")
        return ("ok", {"fulfilled": r.format_constraint_fulfilled, "msg": msg})

    async def _call_fc_one(self, k):
        text_to_be_evaluated_by_format_constraint.set(TEXT)
        return self._fc_value(k, await self.obj.evaluate_single_format_constraint(k))

    async def _call_fc_many(self, ks):
        text_to_be_evaluated_by_format_constraint.set(TEXT)
        res = await self.obj.evaluate_format_constraints(list(ks))
        return ("ok", {k: self._fc_value(k, v) for k, v in res.items()})

    async def _call_hints(self, ks, raise_key_error):
        res = await self.obj.get_hints(list(ks), raise_key_error=raise_key_error)
        return ("ok", {k: {"key": h.condition_key, "text": h.hint} for k, h in res.items()})

    async def _call_get_method(self, k):
        try:
            m = self.obj.get_evaluation_method(k)
        except RecursionError:
            return ("raise", "RecursionError")
        return ("ok", "none" if m is None else ("callable" if callable(m) else repr(m)))

    async def _call_pkg(self, k):
        m = await self.obj.get_condition_expression(k)
        return ("ok", {"key": m.package_key, "expr": "none" if m.package_expression is None else m.package_expression})


def _norm(v):
    """specification result value -> the shape Subject.call produces"""
    if isinstance(v, tuple) and len(v) == 2 and v[0] in ("ok", "raise", "shipped"):
        if v[0] == "raise":
            return ("raise", v[1])
        if v[0] == "shipped":
            return ("ok", {"fulfilled": True, "msg": "none"})
        return ("ok", {} if v[1] == () else _norm(v[1]))        # (TLC prints the empty function as <<>>)
    if isinstance(v, dict):
        out = {}
        for k, x in v.items():
            if k in ("msg", "expr", "text") and isinstance(x, tuple):
                s = "".join(x)
                out[k] = "some other message" if (k == "msg" and s not in ("none", "m")) else s
            else:
                out[k] = _norm(x)
        return out
    return v


def _calls_of(st):
    return [(tuple(h[0]), h[1]) for h in st["hist"]]


def conformance(work, cfgs=("Dispatch_calls.cfg", "Dispatch_hist.cfg")):
    ahb.configure()
    loop = asyncio.new_event_loop()
    stats = {"module": "Dispatch.tla", "states": 0, "calls_replayed": 0, "agree": 0, "deviations": {}}
    for cfg in cfgs:
        dump = work.path(cfg.replace(".cfg", ".dump"))
        t = run_tlc("Dispatch", cfg, work, dump=dump, workers=8)
        stats["states"] += t["states"]
        for st in dump_states(dump):
            if not st["hist"]:
                continue
            kind, impl, cfgv = st["kind"], st["impl"], st["cfg"]
            if kind == "pkg" and impl == "cer" and any(v == "null" for v in dict(cfgv).items()):
                continue
            subject = Subject(kind, impl, dict(cfgv) if kind != "hints" else (dict(cfgv[0]), cfgv[1]))
            for call, expected in _calls_of(st):
                got = loop.run_until_complete(subject.call(call))
                stats["calls_replayed"] += 1
                if got in [_norm(e) for e in expected]:
                    stats["agree"] += 1
                else:
                    key = f"{kind}/{impl}/{call[0]}"
                    d = stats["deviations"].setdefault(key, {"count": 0, "example": None})
                    d["count"] += 1
                    if d["example"] is None:
                        d["example"] = {"cfg": repr(cfgv), "call": repr(call), "specification": repr([_norm(e) for e in expected]), "code": repr(got)}
    loop.close()
    return stats
