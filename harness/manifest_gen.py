"""Generates /verif/MANIFEST.json from the table below (so that it is always schema-valid and in step with the
checks that exist). Run: /venv/bin/python harness/manifest_gen.py"""
import json
import os
import sys
from pathlib import Path

VERIF = Path(__file__).resolve().parent.parent
BASELINE_CMD = ("cd /repo && env -u AHBICHT_VERIF /venv/bin/python -m pytest -ra -q -p no:cacheprovider --timeout=900 "
                "--continue-on-collection-errors")

# id -> (technique, level text, level_note, design_ref)
CHECKS = {}


def check(pid, technique, text, note, ref):
    CHECKS[pid] = (technique, text, note, ref)


check("C03", "TLC: laws as ASSUMEs over the full finite domain + table replay + TLC trace validation of recorded operator runs",
      "Exhaustive: the 9 algebraic/soundness laws and the README rows are checked by TLC on the documented definition "
      "(Logic4.tla); every one of the 48 operator applications enumerated by TLC is replayed on the real enum operators, the laws "
      "are re-evaluated on the real operators for all pairs and triples, and 624 recorded runs of the real operators are "
      "validated against the spec by TLC. The domain is finite, so this decides the property completely.",
      "Trusted: TLC's evaluation of ASSUMEs; the transcription of the README rows in Logic4.ReadmeRows (cross-checked against README.rst "
      "at run time).", "DESIGN.md 3.1, 5/C03")

NOT_BUILT = "check under construction in this session (specification module planned in DESIGN.md section 3); not claimed yet"


def main():
    props = [json.loads(l) for l in open(VERIF / "properties.jsonl")]
    checks = []
    na = []
    for p in props:
        pid = p["id"]
        if pid in CHECKS and (VERIF / "harness" / f"c{pid[1:]}.py").exists():
            tech, text, note, ref = CHECKS[pid]
            checks.append({
                "property_id": pid,
                "quick_cmd": f"./check {pid} --tier quick",
                "thorough_cmd": f"./check {pid} --tier thorough",
                "evidence_file": f"evidence/{pid}.json",
                "replay_cmd_template": f"./check {pid} --replay {{path}}",
                "engine": "tlc+replay",
                "level_claimed": {"category": "model_checking", "text": text, "design_ref": ref},
                "level_note": note,
                "technique": tech,
            })
        else:
            na.append({"property_id": pid, "reason": NOT_BUILT})
    m = {
        "version": 1,
        "setup_cmd": "./setup.sh",
        "hooks": {
            "guard": "AHBICHT_VERIF",
            "enable": "no source hooks: the harness observes public API calls, subclassable transformer callbacks and the "
                      "user-supplied evaluators; ./check exports AHBICHT_VERIF=1 only for uniformity",
            "baseline_off_cmd": BASELINE_CMD,
            "source_commits": [],
            "add_only": True,
        },
        "engines": [{
            "name": "tlc+replay", "path": "check",
            "serves_properties": [c["property_id"] for c in checks],
            "kind_free_text": "TLA+ specifications in spec/ model-checked by TLC 1.8; behaviours enumerated by TLC (-dump / -simulate) "
                              "are replayed through the real ahbicht API and executions recorded from the real code are validated "
                              "against the specifications by TLC (batch trace validation)",
        }],
        "checks": checks,
        "notes": "See DESIGN.md. Genuine defects found on the pinned tree were repaired by unguarded 'fix:' commits in /repo and are listed "
                 "as fixed in known_findings.json.",
        "not_applicable": na,
    }
    (VERIF / "MANIFEST.json").write_text(json.dumps(m, indent=1, ensure_ascii=False) + "\n")
    try:
        import jsonschema
        jsonschema.validate(m, json.load(open("/root/.vp/MANIFEST.schema.json")))
        print("MANIFEST.json valid;", len(checks), "checks,", len(na), "not_applicable")
    except ImportError:
        print("jsonschema not available; MANIFEST.json written without validation")


if __name__ == "__main__":
    main()
