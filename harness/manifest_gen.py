"""Generates /verif/MANIFEST.json from the table below (so that it is always schema-valid and in step with the
checks that exist). Run: /venv/bin/python harness/manifest_gen.py"""
import json
import os
import sys
from pathlib import Path

VERIF = Path(__file__).resolve().parent.parent
BASELINE_CMD = ("cd /repo && env -u AHBICHT_VERIF /venv/bin/python -m pytest -ra -q -p no:cacheprovider --timeout=900 "
                "--continue-on-collection-errors")

# id -> (technique, level text, level_note, design_ref)
CHECKS = {}


def check(pid, technique, text, note, ref):
    CHECKS[pid] = (technique, text, note, ref)


check("C03", "TLC: laws as ASSUMEs over the full finite domain + table replay + TLC trace validation of recorded operator runs",
      "Exhaustive: the 9 algebraic/soundness laws and the README rows are checked by TLC on the documented definition "
      "(Logic4.tla); every one of the 48 operator applications enumerated by TLC is replayed on the real enum operators, the laws "
      "are re-evaluated on the real operators for all pairs and triples, and 624 recorded runs of the real operators are "
      "validated against the spec by TLC. The domain is finite, so this decides the property completely.",
      "Trusted: TLC's evaluation of ASSUMEs; the transcription of the README rows in Logic4.ReadmeRows (cross-checked against README.rst "
      "at run time).", "DESIGN.md 3.1, 5/C03")

EVAL_NOTE = ("Trusted: TLC; the renderer (abstract tree -> string with every composite operand bracketed) and the projection of real "
             "result objects; bounded: expressions up to the stated number of leaves over 2 RC / 1-2 hint / 2-3 FC keys with repetition, "
             "plus seeded random expressions up to 25 leaves through trace validation. Trace validation has two levels: a run whose recorded callbacks "
             "the machine does not reproduce (lazy or shared evaluation, other callback structure) is evaluated again and decided by TLC on its result "
             "(EvalResultTrace.tla); only a wrong result is a violation.")
check("C04", "TLC model checking of Eval.tla (stack machine = recursive semantics) + replay of every enumerated program on the real "
      "evaluator + TLC trace validation of recorded transformer callbacks",
      "TLC proves within the bound that the callback-level stack machine of Eval.tla equals the documented compositional semantics Den "
      "for every postfix program (<=3 leaves quick, <=4 replayed and <=5 spec-only thorough) under every RC assignment; every complete "
      "program enumerated by TLC is rendered, evaluated by the real requirement_constraint_evaluation and compared (error class, "
      "fulfilled, conditional); every callback of the real RequirementConstraintTransformer on unit-test literals and seeded random "
      "expressions (<=25 leaves) is validated by TLC against the machine (EvalTrace.tla); so is every transformer run recorded while the "
      "repository's own test suite executes (pytest plugin), and the evaluated sub-expressions of tlc -simulate behaviours up to 8 leaves are "
      "replayed; abstract keys are mapped by seed to boundary key numbers (499, 500, 900, 901, 999, 2000, 2499); end to end: programs written with "
      "packages are resolved (Resolve.tla's substitution) and evaluated as AHB expressions; the evaluatable data object is updated in place between "
      "evaluations and the same tree object is evaluated twice.", EVAL_NOTE, "DESIGN.md 3.4, 5/C04")
check("C05", "TLC model checking of the four metamorphic laws on Eval.tla + replay of every (original, transformed) pair on the real evaluator",
      "The laws (hint and-ed at any admissible position, FC attached to any RC-carrying sub-expression, operand swap, stability of "
      "definite outcomes under refinement of UNKNOWN) are TLC invariants over every valid expression in the bound at every position; "
      "each law instance is also executed on the real code (both members of the pair), together with redundant-bracket variants "
      "(doubled brackets; minimal brackets relying on the documented precedence with mixed operator spellings); the same pairs on seeded random "
      "expressions with 5-10 leaves.", EVAL_NOTE,
      "DESIGN.md 3.4, 5/C05")
check("C06", "TLC model checking of ValidityIsStructural on Eval.tla + replay at three entry points (condition evaluation, AHB evaluation "
      "with one and two parts, is_valid_expression)",
      "TLC proves within the bound that the machine raises the invalid-expression error iff the tree is structurally invalid (SValid), "
      "independently of the assignment; every enumerated program is replayed under every assignment through "
      "requirement_constraint_evaluation and evaluate_ahb_expression_tree (as single part and inside two-part AHB expressions) and once "
      "per tree through is_valid_expression; recorded runs of random expressions up to 10 leaves are validated by TLC and their validity-check verdict "
      "must agree with evaluation.", EVAL_NOTE, "DESIGN.md 3.4, 5/C06")
check("C07", "TLC model checking of FcMeaning on Eval.tla + replay (real collected expression parsed by the real parser and evaluated by the "
      "real format_constraint_evaluation under every truth assignment) + TLC trace validation comparing collected expressions by meaning",
      "TLC proves within the bound that the collected FC expression of the machine is well-formed, mentions only FC keys of the source and "
      "has, under every FC truth assignment, the value of the direct reading FcRead; every enumerated program is replayed: the real "
      "format_constraints_expression must be absent iff the reading is, must parse into U/O/X over FC keys of the source, and "
      "format_constraint_evaluation of it must give the reading's value under every truth assignment; recorded callbacks on deep random "
      "expressions are validated by TLC with FC expressions compared by meaning.", EVAL_NOTE, "DESIGN.md 3.4, 5/C07")

check("C08", "TLC model checking of FcEval.tla (machine = Boolean value; message iff unfulfilled) + replay of every enumerated program at both "
      "entry points + TLC trace validation of recorded transformer callbacks",
      "TLC proves for every FC-only program in the bound (<=3 leaves replayed, <=4 checked) under every truth assignment that the "
      "callback-level machine computes the Boolean value and carries a message iff unfulfilled, given the precondition on leaves; every "
      "program is replayed through format_constraint_evaluation (two kinds of evaluators, including the default-message path) and "
      "evaluate_format_constraint_tree, with fully bracketed and precedence-reliant renderings; None and '' must be fulfilled; recorded "
      "callbacks on random expressions <=20 leaves and the FC transformer runs of the repository's own test suite are validated by TLC "
      "(two levels: a run the machine does not reproduce is decided on its result by FcResultTrace.tla).",
      "Trusted: TLC, renderer, projection of messages to presence. Precondition read as in DESIGN 6.4.", "DESIGN.md 3.5, 5/C08")

check("C01", "TLC model checking of CondParser.tla (operator-precedence machine = declarative split-at-lowest-operator reading) + replay of every "
      "accepted token sequence in several concrete spellings + TLC trace validation of real parses of long random expressions",
      "TLC proves for every viable token prefix in the bound (<=8 replayed / <=10 checked quick; <=10 / <=12 thorough) that the shunting-yard "
      "machine accepts exactly the well-formed sequences, groups them as the documented reading Split does, never drops or reorders "
      "operands, only nests lower-ranking operators inside brackets, and is insensitive to redundant brackets; every accepted sequence is "
      "rendered plainly and in seeded variants (operand kinds, mixed operator spellings, whitespace, redundant brackets) and the real "
      "parser's tree in n-ary normal form must equal the spec's; real parses of random expressions up to 25 operands are validated by TLC.",
      "Trusted: TLC; the renderer and the n-ary normalisation (same-operator children merged unless bracketed). Lark/Earley itself is only "
      "observed through conformance.", "DESIGN.md 3.2, 5/C01")

check("C02", "TLC model checking of Lexer.tla (character level) and AhbSplit.tla (AHB token level) against the declarative language CondLang + "
      "replay of every viable prefix and of not-enabled continuations at all four entry points + TLC trace validation of parser verdicts on "
      "mutated expressions + garbage",
      "TLC enumerates every viable prefix of the condition language at character-class level (<=6 characters replayed / <=8 checked quick; 8/10 "
      "thorough) and of the AHB-expression language at token level (<=5 / <=7 tokens) and proves that acceptance coincides with the "
      "documented well-formedness; every prefix is rendered with seeded representatives and must be accepted/rejected with SyntaxError by "
      "the condition parser and the resolver exactly as the spec says, not-enabled continuations must be rejected, rejected strings must make "
      "is_valid_expression return (False, message); verdicts of the real parser on thousands of mutated long expressions are decided by "
      "TLC (LexerTrace); random garbage checks that nothing but SyntaxError escapes from any entry point.",
      "Trusted: TLC; the class representatives (every class has several, 'bad' has 35 incl. NBSP, VT, other Unicode digits/letters); the "
      "AHB-only parser is deliberately not required to reject malformed condition parts (DESIGN 5/C02).", "DESIGN.md 3.2, 3.3, 5/C02")

check("C09", "TLC model checking of AhbSplit.tla (split) and AhbEval.tla (selection) + replay of every accepted token sequence and every part list "
      "through the resolver and evaluate_ahb_expression_tree, compared with the spec and with the deciding part's own evaluation",
      "TLC enumerates every viable prefix of the AHB-expression language up to 8 (thorough 10) tokens and every part list up to 3 (4) parts "
      "with every indicator / bare-or-conditioned / four-valued state combination, proving losslessness of the split and the "
      "first-fulfilled-else-last selection (incl. irrelevance of later parts); every accepted sequence is parsed by the real resolver in "
      "plain and seeded spellings and must give the spec's parts; every part list is realised as an expression with seeded condition "
      "shapes and evaluated: indicator and outcome must be the spec's deciding part, and outcome/hints/format expression/format "
      "result must equal the real evaluation of that part's condition on its own; bare indicators are re-evaluated between cases; results of random "
      "expressions with 4-9 parts are decided by TLC (AhbEvalTrace.tla).",
      "Trusted: TLC, renderer, projection. requirement_is_conditional compared only for single parts (DESIGN 6.6a).", "DESIGN.md 3.3, 3.6, 5/C09")

VAL_NOTE = ("Trusted: TLC; the renderer from node labels to AHB expressions under a fixed content evaluation result (keys 1,2 fulfilled; 3,4 unfulfilled; "
            "5,6 unknown; packages 1P,3P,5P,12P,13P) and the projection of ValidationResultInContext lists; bounded tree sizes as stated, larger "
            "bounds sampled by seed.")
check("C13", "TLC model checking of Validation.tla (documented recursive walk; ExactlyOnceInOrder, ParentDominates, Suffix) + replay of every "
      "enumerated AHB tree through validate_deep_anwendungshandbuch",
      "TLC generates every AHB forest up to 3 nodes with every label (4 indicators x 3 outcomes, or INVALID) at every node kind and, over 8 labels, "
      "up to 4 (thorough 5) nodes, and proves on each the structural properties of the documented walk; every tree <=3 nodes and a seeded sample of "
      "the larger ones is rendered as a maus DeepAnwendungshandbuch with seeded expression shapes and validated by the real code with both flag "
      "values: reported nodes, their order, statuses and FILLED/EMPTY suffixes must equal the spec's list; an undetermined MUSS/prefix node must "
      "give NotImplementedError; validate_segment_level on single roots, data elements sharing one discriminator, and real results of random AHBs with "
      "5-30 nodes and AHBs in which one node has 33/65/100 (thorough up to 257) children decided by TLC (ValidationTrace.tla); every third judged "
      "run is preceded in the same task by a validation under another content evaluation result and flag value.", VAL_NOTE, "DESIGN.md 3.10, 5/C13")
check("C14", "TLC model checking of SollEquivalence on Validation.tla + replay: flag runs against runs on the textually rewritten AHB (real code on both "
      "sides) and against the spec",
      "TLC proves Validate(t, TRUE) = Validate(t[SOLL:=MUSS], any flag) and Validate(t, FALSE) = Validate(t[SOLL:=KANN], any flag) for every tree in "
      "the bound; for every enumerated tree containing SOLL (seeded sample for 4-5 nodes) the real code validates the AHB with each flag value and "
      "the AHB whose SOLL indicator words are replaced by Muss/Kann under both flag values; all must agree with each other and the spec; the "
      "same on random AHBs of 6-25 nodes.",
      VAL_NOTE, "DESIGN.md 3.10, 5/C14")
check("C16", "TLC model checking of Containment on Validation.tla + replay: AHB with invalid expressions against the AHB with 'Kann' (real code on both "
      "sides) and against the spec",
      "TLC proves for every tree in the bound with INVALID labels at any subset of groups, segments, free-text elements and pool entries that the "
      "invalid nodes are optional and every other node is reported exactly as in the tree with 'Kann'; the real code validates both AHBs for a "
      "seeded sample of all such trees <=4 (5) nodes and random AHBs of 6-25 nodes: no exception, invalid node optional with hint, all other entries "
      "identical; invalid expressions also with several modal marks and behind per-AHB package definitions.",
      VAL_NOTE, "DESIGN.md 3.10, 5/C16")
check("C17", "TLC model checking of PoolRules on Validation.tla + exhaustive replay of every pool through three entry points",
      "TLC enumerates every value pool of 1-3 entries over {fulfilled, unfulfilled, unknown, invalid} x every entered input x parent status and proves the "
      "pool rules on the documented PoolResult; every one is validated by the real code through validate_deep_anwendungshandbuch, validate_segment "
      "and validate_data_element_valuepool: offered qualifiers in pool order, accepted iff offered, unexpected flagged and reported empty, forbidden "
      "iff nothing offered or the segment is forbidden; real results for random pools of 1-14 entries whose qualifiers are prefixes/substrings of "
      "each other, with qualifiers listed more than once and entry expressions behind per-AHB package definitions, are decided by TLC (PoolTrace.tla).", VAL_NOTE, "DESIGN.md 3.10, 5/C17")

ASYNC_NOTE = ("Trusted: TLC; harness/plans.py (derivation of the series-parallel plan from the input = the model of where ahbicht gathers; checked against the "
              "code at run time: the set of awaitables the code starts must be the plan's, and the pending set must match at every step); the gate driver's "
              "quiescence detection (event loop ready queue empty twice in a row). Scenarios are small by design; each is explored exhaustively by TLC. "
              "If the code's awaitables or pending sets differ from the plan's (a refactoring of the gathers) that is recorded, not reported: the schedules are "
              "then explored on the real pending sets. Only an observation the plan does not derive for a key (foreign text / data) is a violation; an expected "
              "observation that does not occur is not.")
check("C12", "TLC model checking of Async.tla (all interleavings of the plan's awaitables; Assoc, OwnContext, NoLostOrDoubleStart) + deterministic gate "
      "driver replaying TLC's schedules into the real asyncio code, comparing pending sets at every step and the final result with the no-yield run",
      "For 19 (thorough 24) scenarios covering requirement/format evaluation with repeated keys, multi-part AHB expressions, package expansion with repeated, "
      "nested and right-deep packages, resolver+evaluation, is_valid_expression with context-local data and three concurrent evaluations whose values and hint "
      "texts come from their own context-local data (each result must be the one the evaluation has alone), TLC explores every completion order of the derived "
      "plan and checks that positional gathering pairs every key with its own value and that every awaitable reads its own task's context; two "
      "sensitivity configurations (completion-order slots, shared context) must produce counterexamples. The real code is then forced through every "
      "interleaving (<=300, thorough <=3000; otherwise a transition cover plus random schedules): at each step the gated awaitables pending in "
      "the real event loop must be exactly the specification's Pending set (labels carry the key, occurrence and the data/text the evaluator saw), "
      "and the result must equal the result when nothing yields. Gathers wider than any batching limit (40 keys in one expression, 40 segments in one "
      "group) are driven along 120 (thorough 400) seeded random completion orders without TLC (2^40 settled states).", ASYNC_NOTE, "DESIGN.md 3.9, 4.3, 5/C12")

check("C15", "TLC model checking of Async.tla on the plan of a whole validation run (OwnContext: every FC awaitable reads the text set by its own data "
      "element, under all interleavings) + gate driver forcing validate_deep_anwendungshandbuch through TLC's schedules",
      "For 8 (thorough 12) AHB scenarios with several free-text elements (the caller's context already holds a foreign text; elements without input; equal "
      "time-condition expressions with different inputs) carrying different inputs and format constraints (same key in different elements, "
      "several modal marks, packages bringing in format constraints, several segments / groups / a value pool / a forbidden segment) TLC explores every "
      "completion order of all awaitables of the run; the real validation is driven through all of them (or a transition cover plus random "
      "schedules). The gated format-constraint evaluators put the text they were handed into their label, so the real pending set equals the "
      "specification's only if each evaluator saw its own element's input; the final result must equal the no-yield result and each element's "
      "entry its stand-alone validation. The shared-context sensitivity configuration must violate OwnContext.", ASYNC_NOTE, "DESIGN.md 3.9, 4.3, 5/C15")

check("C10", "TLC model checking of the substitution lemma on Resolve.tla (textual bracketed substitution = splicing parsed sub-trees) + replay of every "
      "enumerated expression through the real resolver, expand_packages and expand_time_conditions",
      "TLC proves for every well-formed expression up to 5 (thorough 6) tokens over keys, two packages and time conditions, under four package tables, "
      "that parsing the textually substituted expression gives the tree obtained by splicing the parsed package / time-condition trees at the "
      "leaves (one level, also for each step alone); every such expression is resolved by the real code (also inside AHB expressions, packages "
      "with and without repeatability) and compared with the spec's tree, with the real parse of the substituted text, step by step; unknown "
      "packages must abort with NotImplementedError (also a package number written with leading zeros, which is a different key); random expressions "
      "with 8-13 operands and up to 13 package occurrences are decided by TLC (ResolveTrace.tla). Completion orders are covered by C12.",
      "Trusted: TLC, renderer, n-ary normalisation with bracket spans of the substituted token sequence.", "DESIGN.md 3.7, 5/C10")

check("C11", "TLC model checking of Cache.tla (heap with aliased list cells; Pure, CachePristine under the required deep-copy design; three aliasing copy "
      "modes must violate) + replay of every TLC-generated history on both real cached parsers",
      "TLC explores every history of 5 steps over 2 (thorough 3) strings of parse (hit/miss), in-place edits (append/remove/replace at the root list or a "
      "child's list of the two most recently returned trees) and eviction, and proves that with deep copies every parse returns the pristine tree and "
      "the cache stays pristine, while shallow copy (lark Tree.copy), children-only copy and no-copy-on-miss each violate it. Every history ending in a "
      "parse is replayed on parse_condition_expression_to_tree and parse_ahb_expression_to_single_requirement_indicator_expressions (fresh strings per "
      "history, eviction by flooding with cache_info().maxsize fillers for a seeded sample) and on the condition parser reached through the resolver "
      "(the embedded tree is edited): each returned tree must be structurally identical to an un-cached parse; evaluation results before/after edits "
      "are compared as well.",
      "Trusted: TLC; the mapping of model cells to real lists (tree.children, tree.children[k].children); lark's un-cached parser as the reference for "
      "the pristine structure.", "DESIGN.md 3.8, 5/C11")

check("C18", "TLC: partition of the key numbers as ASSUMEs, union law / ordering / product size as invariants of Keys.tla + replay of the class table and of "
      "every enumerated operand sequence through the real extraction and result generation",
      "TLC checks the documented ranges over 0..2600 (partition, boundaries, class sizes) and, for every operand sequence up to 4 over a pool of boundary "
      "keys, that extraction is once-per-category in ascending numeric order, that the extract of a composition is the union of the extracts, and "
      "that the product has 3^m*2^n elements; the class of each of the 2601 numbers is compared with derive_condition_node_type, every sequence is "
      "rendered as an expression and extracted by the real code (string and tree entry points, sum of extracts of two parts), and the generated "
      "content evaluation results must be a duplicate-free list of valid combinations of exactly the product's size; extracts of random expressions "
      "with 8-20 operands over the whole key range (also with package / time-condition resolution) are decided by TLC (KeysTrace.tla).",
      "Trusted: TLC (SetToSortSeq from the CommunityModules). m = n = 0 is recorded, not judged (DESIGN 6.5). Package keys are compared as sets "
      "(their order is not specified).", "DESIGN.md 3.11, 5/C18")

check("C20", "TLC: calendar / EU daylight-saving arithmetic of GermanTime.tla checked by ASSUMEs (known dates, one Stromtag and one Gastag limit per civil day, "
      "23/24/25-hour days exactly on the switch days) + enumeration of instants whose verdicts are replayed in many UTC-offset notations",
      "The spec computes German local time from integer arithmetic only (no time-zone library) and is sanity-checked by TLC against known switch dates and "
      "the one-limit-per-day theorem over all 15,340 days. TLC enumerates instants (quick: 11 special days per year x 20 seconds of day; thorough: every "
      "day 1996-2037 x 20 seconds) with their verdicts; each instant is written with 8 (thorough 32) UTC offsets incl. Z and evaluated by the real "
      "evaluate_931..935 (and through format_constraint_evaluation for a sample): every notation must get the spec's verdict, unfulfilled results "
      "carry a message. The no-exception clause is exercised with 56 boundary strings (year 1/9999 edges, invalid fields, odd offsets) and thousands "
      "of mutated / random strings.",
      "Trusted: TLC integer arithmetic; Python's timezone-free datetime for rendering. Exact verdicts only for the canonical notations (DESIGN 6.6). As "
      "DESIGN 9.1 says, for this property the spec is an independent oracle plus generator for a pure function rather than a concurrency model.",
      "DESIGN.md 3.12, 5/C20")

check("C19", "TLC model checking of Codec.tla on the field table extracted from the real marshmallow schemas (producer domain within loader domain) + JSON "
      "round trips of every object the real code produces along behaviours enumerated by AhbSplit.tla, AhbEval.tla and Keys.tla",
      "TLC decides on the extracted null/required/default table whether every record ahbicht can produce (nullable fields per the evaluator specs) survives "
      "dump+load; each verdict is reproduced on the real schema, which also validates the small model. The real parsers/resolver/evaluators are run "
      "on every accepted expression <=5 (6) tokens, every part list <=2 (3) parts with every outcome incl. undetermined, every operand sequence <=3: "
      "trees (with packages, repeatabilities, time conditions), key extracts (sanitized and raw), content evaluation results (with None/packages/id "
      "variants), evaluated format constraints and AHB/requirement/format results must be equal after dump -> json -> load, and round-tripped trees "
      "must evaluate like the originals.",
      "Trusted: TLC; marshmallow is observed, not specified, beyond the null/required/default rules - for this property the specification mainly "
      "supplies the producible domain (DESIGN 9.1, 9.4).", "DESIGN.md 3.13, 5/C19")

NOT_BUILT = "check under construction in this session (specification module planned in DESIGN.md section 3); not claimed yet"


def main():
    props = [json.loads(l) for l in open(VERIF / "properties.jsonl")]
    checks = []
    na = []
    for p in props:
        pid = p["id"]
        if pid in CHECKS and (VERIF / "harness" / f"c{pid[1:]}.py").exists():
            tech, text, note, ref = CHECKS[pid]
            checks.append({
                "property_id": pid,
                "quick_cmd": f"./check {pid} --tier quick",
                "thorough_cmd": f"./check {pid} --tier thorough",
                "evidence_file": f"evidence/{pid}.json",
                "replay_cmd_template": f"./check {pid} --replay {{path}}",
                "engine": "tlc+replay",
                "level_claimed": {"category": "model_checking", "text": text, "design_ref": ref},
                "level_note": note,
                "technique": tech,
            })
        else:
            na.append({"property_id": pid, "reason": NOT_BUILT})
    m = {
        "version": 1,
        "setup_cmd": "./setup.sh",
        "hooks": {
            "guard": "AHBICHT_VERIF",
            "enable": "no source hooks: the harness observes public API calls, subclassable transformer callbacks and the "
                      "user-supplied evaluators; ./check exports AHBICHT_VERIF=1 only for uniformity",
            "baseline_off_cmd": BASELINE_CMD,
            "source_commits": [],
            "add_only": True,
        },
        "engines": [{
            "name": "tlc+replay", "path": "check",
            "serves_properties": [c["property_id"] for c in checks],
            "kind_free_text": "TLA+ specifications in spec/ model-checked by TLC 1.8; behaviours enumerated by TLC (-dump / -simulate) "
                              "are replayed through the real ahbicht API and executions recorded from the real code are validated "
                              "against the specifications by TLC (batch trace validation)",
        }],
        "checks": checks,
        "notes": "See DESIGN.md. Genuine defects found on the pinned tree were repaired by unguarded 'fix:' commits in /repo and are listed "
                 "as fixed in known_findings.json.",
        "not_applicable": na,
    }
    (VERIF / "MANIFEST.json").write_text(json.dumps(m, indent=1, ensure_ascii=False) + "\n")
    try:
        import jsonschema
        jsonschema.validate(m, json.load(open("/root/.vp/MANIFEST.schema.json")))
        print("MANIFEST.json valid;", len(checks), "checks,", len(na), "not_applicable")
    except ImportError:
        print("jsonschema not available; MANIFEST.json written without validation")


if __name__ == "__main__":
    main()
