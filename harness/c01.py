"""C01 - condition expressions are grouped by the documented operator precedence (CondParser.tla)."""
import multiprocessing as mp
import random

import condparse as CP
from common import MachineryError, Result, Work, dump_states, main_wrapper, run_tlc, seed, tier, validate_traces

PID = "C01"
INVS = ["AcceptsExactlyWellFormed", "MachineAgreesWithSplit", "YieldIsInput", "PrecedenceStructure", "RedundantBrackets"]


def write_cfg(work, name, maxtok, invs=INVS, mc=True):
    p = work.path(name)
    p.write_text(f"CONSTANTS\n MaxTok = {maxtok}\nINIT {'MCInit' if mc else 'Init'}\nNEXT {'MCNext' if mc else 'Next'}\n"
                 + "\n".join("INVARIANT " + i for i in invs) + "\nCHECK_DEADLOCK FALSE\n")
    return str(p)


def real_canon(expr, toks):
    """parse with the real parser -> (n-ary normal form, leaf texts); raises SyntaxError as the parser does"""
    import ahb
    from ahbicht.expressions.condition_expression_parser import parse_condition_expression_to_tree
    if hash(expr) % 4 == 0:
        # fault history: malformed near misses of the same string (a key split by a blank, a stray bracket, full-width characters) were refused before
        from common import near_misses
        for nm in near_misses(expr):
            try:
                parse_condition_expression_to_tree(nm)
            except BaseException:  # noqa: BLE001 - not judged here (C02 judges what is refused)
                pass
    t = parse_condition_expression_to_tree(expr)
    return CP.canon(ahb.cond_tree_binary(t), CP.bracket_spans(toks))


def check_accepting(state, idx, sd, viol, samples, counts, distinct, variants):
    toks = list(state["consumed"])
    spec_tree = state["obs"]["res"]
    rng = random.Random(sd * 1000003 + idx)
    forms = [CP.render_tokens(toks, None, plain=True)]
    for v in range(variants):
        forms.append(CP.render_tokens(toks, rng, redundant=0.25 if v % 2 else 0.0))
    nops = toks.count("a")
    if nops >= 2:
        distinct.add(tuple(toks))
    for expr, leaves in forms:
        counts["parses"] = counts.get("parses", 0) + 1
        case = {"tokens": toks, "expr": expr, "spec_tree": spec_tree}
        try:
            tree, texts = real_canon(expr, toks)
        except SyntaxError:
            viol.append((f"well-formed expression {expr!r} (tokens {' '.join(toks)}) is rejected with SyntaxError", case))
            continue
        except BaseException as e:  # pylint:disable=broad-except
            viol.append((f"parsing {expr!r} raised {type(e).__name__}", case))
            continue
        if texts != leaves:
            viol.append((f"{expr!r}: operands {texts} differ from the written ones {leaves} (dropped/reordered/altered)", case))
        elif tree != spec_tree:
            viol.append((f"{expr!r} (tokens {' '.join(toks)}) is grouped as {tree}, the documented precedence gives {spec_tree}", case))
        elif len(samples) < 3 and nops >= 4 and rng.random() < 0.01:
            samples.append({"tokens": " ".join(toks), "rendered": expr, "grouping": CP.tree_to_json(tree)})


def _worker(args):
    dump, shard, nshards, sd, variants = args
    import ahb  # noqa: F401  (sets up sys.path / logging)
    viol, samples, counts, distinct = [], [], {}, set()
    idx = -1
    for st in dump_states(dump, shard, nshards):
        idx += 1
        if not st["obs"]["acc"]:
            continue
        try:
            check_accepting(st, idx * nshards + shard, sd, viol, samples, counts, distinct, variants)
        except Exception as e:
            raise MachineryError(f"harness exception on {st}: {type(e).__name__}: {e}") from e
        if len(viol) > 60:
            break
    return viol, samples, counts, {hash(d) for d in distinct}


def trace_validation(res, work, n, max_operands=25):
    import ahb  # noqa: F401
    rng = random.Random(seed() * 13 + 1)
    traces = []
    for tid in range(1, n + 1):
        toks = CP.random_tokens(rng, rng.randint(2, max_operands))
        expr, leaves = CP.render_tokens(toks, rng, redundant=0.1)
        try:
            tree, texts = real_canon(expr, toks)
            j = CP.tree_to_json(tree)
            if texts != leaves:
                res.violation(f"{expr!r}: operands {texts} differ from the written ones {leaves}", {"tokens": toks, "expr": expr})
        except SyntaxError:
            j = ["reject", []]
        except BaseException as e:  # pylint:disable=broad-except
            res.violation(f"parsing the well-formed expression {expr!r} raised {type(e).__name__}", {"tokens": toks, "expr": expr})
            continue
        traces.append({"id": tid, "toks": toks, "tree": j, "expr": expr})
    slim = [{"id": t["id"], "toks": t["toks"], "tree": t["tree"]} for t in traces]
    t2, acc, diag = validate_traces("CondParserTrace", "CondParserTrace.cfg", slim, work, tag="cptrace")
    res.add_tlc(f"CondParserTrace: real parses of random expressions with up to {max_operands} operands fed through the machine", t2)
    res.count("traces_validated_against_impl", len(traces))
    for t in traces:
        res.distinct(tuple(t["toks"]))
        if t["id"] not in acc:
            at, exp = diag.get(t["id"], (0, ()))
            res.violation(f"real parse of {t['expr']!r} = {t['tree']} is not what CondParser.tla computes: {exp}",
                          {"tokens": t["toks"], "expr": t["expr"], "real": t["tree"]})
    if traces:
        res.sample({"random_expression": traces[-1]["expr"], "tokens": len(traces[-1]["toks"]), "real_grouping": traces[-1]["tree"]})


def deep_nesting(res, depths):
    """bracket nesting far beyond the bounded model (the documented reading is the same at every depth: brackets bind tightest): an expression nested d levels
    to the right / to the left must come back as exactly that chain - walked iteratively, operand by operand"""
    import ahb  # noqa: F401
    from ahbicht.expressions.condition_expression_parser import parse_condition_expression_to_tree
    from lark import Tree
    ops = [("O", "or_composition"), ("\u2227", "and_composition"), ("X", "xor_composition"), ("u", "and_composition"), ("\u2228", "or_composition")]
    for d in depths:
        for side in ("right", "left"):
            expr, chain = "[1] U [2]", []
            for lvl in range(1, d + 1):
                sym, rule = ops[lvl % len(ops)]
                key = 1000 + lvl
                expr = f"[{key}] {sym} ({expr})" if side == "right" else f"({expr}) {sym} [{key}]"
                chain.append((rule, str(key)))
            res.count("parses")
            res.distinct(("deep", d, side), nontrivial=True)
            try:
                node = parse_condition_expression_to_tree(expr)
            except BaseException as e:  # pylint:disable=broad-except
                res.violation(f"an expression nested {d} levels to the {side} is rejected with {type(e).__name__}", {"kind": "deep", "depth": d, "side": side})
                continue
            problem = None
            for lvl, (rule, key) in enumerate(reversed(chain)):
                kids = node.children if isinstance(node, Tree) else []
                if not isinstance(node, Tree) or str(node.data) != rule or len(kids) != 2:
                    problem = f"level {lvl} is {getattr(node, 'data', node)!s} instead of {rule}"
                    break
                leaf, rest = (kids[0], kids[1]) if side == "right" else (kids[1], kids[0])
                if not (isinstance(leaf, Tree) and str(leaf.data) == "condition" and str(leaf.children[0].value) == key):
                    problem = f"the single operand of level {lvl} is not [{key}]"
                    break
                node = rest
            if problem is None and ahb.cond_tree_binary(node) != ("and", ("leaf", "key", "1"), ("leaf", "key", "2")):
                problem = "the innermost bracket is not [1] U [2]"
            if problem:
                res.violation(f"an expression nested {d} levels to the {side} with brackets is grouped differently from its brackets: {problem}",
                              {"kind": "deep", "depth": d, "side": side})
    res.coverage["deep_nesting_depths"] = list(depths)


def run():
    res = Result(PID)
    work = Work(PID)
    thorough = tier() == "thorough"
    n = 10 if thorough else 8
    dump = work.path("cp.dump")
    t = run_tlc("CondParserMC", write_cfg(work, "cp.cfg", n), work, dump=dump, timeout=3000)
    res.add_tlc(f"CondParser: machine = documented reading (Split), precedence structure, redundant brackets; all viable prefixes <= {n} tokens", t)
    if not thorough:
        t2 = run_tlc("CondParser", write_cfg(work, "cp10.cfg", 10, mc=False), work, timeout=3000)
        res.add_tlc("CondParser: same invariants, all viable prefixes <= 10 tokens (spec level only)", t2)
    else:
        t2 = run_tlc("CondParser", write_cfg(work, "cp12.cfg", 12, mc=False, invs=INVS[:4]), work, timeout=3000)
        res.add_tlc("CondParser: invariants without RedundantBrackets, all viable prefixes <= 12 tokens (spec level only)", t2)
    variants = 4 if thorough else 3
    with mp.get_context("fork").Pool(16) as pool:
        outs = pool.map(_worker, [(str(dump), i, 16, seed(), variants) for i in range(16)])
    for viol, samples, counts, distinct in outs:
        for d, c in viol:
            res.violation(d, c)
        for s in samples:
            res.sample(s)
        for k, v in counts.items():
            res.count(k, v)
        res.merge_distinct(distinct)
    res.coverage["evaluations"] = res.coverage.get("parses", 0)
    res.coverage["traces_validated_against_impl"] += res.coverage.get("parses", 0)
    dump.unlink()
    trace_validation(res, work, 6000 if thorough else 800)
    deep_nesting(res, (30, 270, 400, 800) if thorough else (30, 270, 400))
    res.coverage["exhaustive"] = True
    res.coverage["rule"] = (f"every well-formed token sequence <= {n} tokens (operand, brackets, U, X, O, juxtaposition) is one case, rendered plain and in "
                            f"{variants} seeded variants (operand kinds [n]/[nP]/[nPa..b]/[UBi], six operator spellings mixed within one expression, "
                            "whitespace incl. tab/newline/form feed, redundant brackets around operands and the whole); the real tree in n-ary normal "
                            "form must equal the spec's grouping; non-trivial = at least two operands; distinct by token sequence")
    res.assumptions += ["n-ary normal form: a same-operator child is merged into its parent unless exactly its operands are enclosed by a bracket pair"]
    return res.finish(work)


def replay(case):
    import ahb  # noqa: F401
    from evalcheck import _tuplify
    if case.get("kind") == "deep":
        res = Result(PID)
        deep_nesting(res, (case["depth"],))
        for d, _ in res.violations:
            print(d)
        return 1 if res.violations else 0
    toks = case["tokens"]
    try:
        tree, texts = real_canon(case["expr"], toks)
    except SyntaxError:
        print("rejected with SyntaxError:", repr(case["expr"]))
        return 1
    spec = _tuplify(case.get("spec_tree")) if case.get("spec_tree") else None
    print("expression:", repr(case["expr"]), "\n real:", tree, "\n spec:", spec)
    return 0 if (spec is None or tree == spec) else 1


if __name__ == "__main__":
    main_wrapper(run)
