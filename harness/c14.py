"""C14 - soll_is_required is equivalent to rewriting SOLL at every level (Validation.tla: SollEquivalence)."""
import valcheck as V
from common import Result, Work, main_wrapper, run_tlc, tier

PID = "C14"
LABELS = ["SOLL.T", "SOLL.F", "SOLL.K", "MUSS.T", "KANN.T", "PFX.T", "MUSS.F", "INV.T"]


def run():
    res = Result(PID)
    work = Work(PID)
    thorough = tier() == "thorough"
    n = 5 if thorough else 4
    # (8 labels on 5 nodes: 8.5 million states and an hour; the thorough tier goes one node deeper over the 5 labels that matter for SOLL)
    labs = ["SOLL.T", "SOLL.F", "SOLL.K", "MUSS.T", "KANN.T"] if thorough else LABELS
    mod, cfg = V.write_model(work, "soll", n, labs, labs, [("T", "F")], ["none", "q1"], ["SollEquivalence", "ExactlyOnceInOrder", "ParentDominates"])
    dump = work.path("v.dump")
    t = run_tlc(mod, cfg, work, dump=dump, timeout=3000)
    res.add_tlc(f"Validation: SollEquivalence on every AHB <= {n} nodes over labels with SOLL in every outcome at every kind of node", t)
    V.replay_dump("C14", dump, res, stride=(30 if thorough else 24))
    dump.unlink()
    mod3, cfg3 = V.write_model(work, "soll3", 3, V.ALL_LABELS, V.ALL_LABELS, [("T", "F")], ["none"], ["SollEquivalence"])
    dump3 = work.path("v3.dump")
    t3 = run_tlc(mod3, cfg3, work, dump=dump3, timeout=3000)
    res.add_tlc("Validation: SollEquivalence on every AHB <= 3 nodes with all 13 labels", t3)
    V.replay_dump("C14", dump3, res, stride=(1 if thorough else 5))
    dump3.unlink()
    V.large_metamorphic("C14", res, 600 if thorough else 60)
    res.coverage["exhaustive"] = thorough
    res.coverage["rule"] = ("one case = an AHB tree with at least one SOLL node: validated by the real code with soll_is_required=True/False and, for each, the "
                            "AHB whose SOLL indicator words are textually replaced by Muss / Kann under both flag values; the four pairs must be "
                            "equal and equal to the documented result; non-trivial = at least 2 nodes")
    res.assumptions += ["the rewritten AHB is rendered from the same seed, so it differs from the original exactly in the SOLL indicator words"]
    return res.finish(work)


def replay(case):
    return V.replay_case("C14", case)


if __name__ == "__main__":
    main_wrapper(run)
