"""Shared engine of C13, C14, C16, C17: TLC enumerates every AHB tree of Validation.tla (with the documented validation result in
the state); each tree is rendered as a maus DeepAnwendungshandbuch whose expressions realise the node labels, validated by the
real code, and compared as the property demands."""
import asyncio
import copy
import multiprocessing as mp
import random

from common import MachineryError, Result, Work, dump_states, run_tlc, seed, tier, to_tla

RC = {1: "F", 2: "F", 3: "U", 4: "U", 5: "K", 6: "K"}
KEYS = {"T": [1, 2], "F": [3, 4], "K": [5, 6]}
PACKAGES = {"1P": "[1]", "3P": "[3]", "5P": "[5]", "12P": "[1] U [2]", "13P": "[1] U [3]"}
HINTS = {501: "H501", 502: "H502"}
FCS = {901: True, 902: False}
WORDS = {"MUSS": ["Muss", "M", "muss", "MUSS"], "SOLL": ["Soll", "S", "soll", "sOLL"], "KANN": ["Kann", "K", "kann"], "PFX": ["X", "O", "U", "x"]}


def label_expression(lab, rng, free=False, node=0, dyn=None):
    """an AHB expression whose evaluation under the fixed content evaluation result realises the label. With `dyn` (a dict the caller adds to the
    package table of THIS AHB only) the expression may be a per-node package written with a repeatability or inner blanks whose definition differs
    from AHB to AHB - the expression text is the same in many AHBs, its meaning is not."""
    ind, ful = lab["ind"], lab["ful"]
    if dyn is not None and rng.random() < 0.12:
        w = rng.choice(WORDS[ind if ind != "INV" else rng.choice(["MUSS", "SOLL", "KANN"])])
        key = f"{100 + node}P"
        dyn[key] = (f"[{rng.choice([1, 3, 5])}] O [501]" if ind == "INV" else f"[{rng.choice(KEYS[ful])}]")
        return f"{w} " + rng.choice([f"[{key}0..1]", f"[ {key} ]", f"[{key} 1..3]", f"[{key}]"])
    if ind == "INV":
        w = rng.choice(WORDS[rng.choice(["MUSS", "SOLL", "KANN", "PFX"])])
        k = rng.choice([1, 3, 5])
        forms = [f"{w} [{k}] O [501]", f"{w} [501] X [{k}]", f"{w} ([{k}] U [2]) O [502]"]
        if free:
            # the third kind of invalid composition: a hint or-ed / xor-ed with a format constraint
            forms += [f"{w} [501] O [901]", f"{w} [902] X [502]", f"{w} [{k}] U ([501] O [901])"]
        if w[0] in "MmSsKk":
            # several modal marks: the invalid composition sits behind a fulfilled / in front of another conditioned part
            forms += [f"Muss [1] {w} [{k}] O [501]", f"{w} [{k}] O [501] Kann [1]", f"Kann [3] {w} [502] X [{k}] Soll [2]"]
        return rng.choice(forms)
    w = rng.choice(WORDS[ind])
    k = rng.choice(KEYS[ful])
    forms = [f"{w} [{k}]", f"{w}[{k}]", f"{w} [{k}] U [501]"]
    if ful == "T":
        forms += [w, f"{w} [1] U [2]", f"{w} [1P]", f"{w} [12P]", f"{w} [3] O [1]"]
    if ful == "F":
        forms += [f"{w} [3P]", f"{w} [13P]", f"{w} [1] U [3]", f"{w} [1] X [2]"]
    if ful == "K":
        forms += [f"{w} [5P]", f"{w} [1] U [5]", f"{w} [3] O [5]"]
    if free:
        forms += [f"{w} [{k}][901]", f"{w} [{k}] U [902]"]
    if ind in ("MUSS", "SOLL", "KANN") and rng.random() < 0.2:
        # several modal marks: an unfulfilled first part in front does not change indicator or outcome of the deciding part
        return f"{rng.choice(WORDS[ind])} [3] " + rng.choice(forms[:3] if ful != "T" else forms[:3] + forms[4:])
    return rng.choice(forms)


def entry_expression(e, rng, dyn=None, slot=0):
    if dyn is not None and e != "I" and rng.random() < 0.2:
        # a package whose definition belongs to THIS AHB only: the same entry expression means different things in different AHBs
        key = f"{2000 + slot}P"
        dyn[key] = f"[{rng.choice(KEYS[e])}]"
        return "X " + rng.choice([f"[{key}]", f"[{key} 0..1]"])
    if dyn is not None and e in "TF" and rng.random() < 0.12:
        # two packages of THIS AHB on different levels of one entry expression (the deeper one on the right)
        a, b = f"{2000 + slot}P", f"{3000 + slot}P"
        dyn[a], dyn[b] = ("[1]", "[3]") if e == "T" else ("[3]", "[1]")
        return f"X [{a}] O ([{b}] U [3])"
    return {"T": rng.choice(["X [1]", "X", "X [2] U [1]", "X [1P]"]), "F": rng.choice(["X [3]", "X [1] U [4]"]),
            "K": rng.choice(["X [5]", "X [5] U [1]"]), "I": rng.choice(["X [1] O [501]", "X [501] X [3]"])}[e]


def build_ahb(nodes, rng, soll_to=None, inv_to_kann=False, shared_discriminator=None):
    """nodes (spec encoding) -> DeepAnwendungshandbuch. The same rng seed gives the same expressions, so rewritten variants
    (SOLL -> Muss/Kann, INVALID -> Kann) differ from the original only where intended."""
    from maus.models.anwendungshandbuch import AhbMetaInformation, DeepAnwendungshandbuch
    from maus.models.edifact_components import DataElementFreeText, DataElementValuePool, Segment, SegmentGroup, ValuePoolEntry
    objs = {}
    roots = []
    exprs = {}
    dyn = {}
    for i, n in enumerate(nodes, start=1):
        sub = random.Random(rng.random())       # one independent stream per node, consumed identically in every variant
        kind = n["kind"]
        if kind in ("g", "s", "f"):
            lab = dict(n["lab"])
            expr = label_expression(lab, sub, free=(kind == "f"), node=i, dyn=dyn)
            if lab["ind"] == "SOLL" and soll_to:
                # textual rewriting of the SOLL indicator word of this node's expression
                expr = rewrite_soll(expr, soll_to)
            if lab["ind"] == "INV" and inv_to_kann:
                expr = "Kann"
                dyn.pop(f"{100 + i}P", None)
            exprs[i] = expr
        if kind == "g":
            o = SegmentGroup(discriminator=f"n{i}", ahb_expression=expr, segments=[], segment_groups=[])
            (roots if n["par"] == 0 else objs[n["par"]].segment_groups).append(o)
        elif kind == "s":
            o = Segment(discriminator=f"n{i}", ahb_expression=expr, data_elements=[])
            objs[n["par"]].segments.append(o)
        elif kind == "f":
            inp = "abc" if n["inp"] == "text" else sub.choice([None, ""])
            o = DataElementFreeText(discriminator=(shared_discriminator[0] if shared_discriminator else f"n{i}"), ahb_expression=expr, entered_input=inp,
                                    data_element_id="1234")
            objs[n["par"]].data_elements.append(o)
        else:
            entries = []
            for j, e in enumerate(n["pool"], start=1):
                ee = entry_expression(e, sub, dyn=dyn, slot=16 * i + j)      # (one key per pool entry of this AHB)
                if e == "I" and inv_to_kann:
                    ee = "Kann"
                entries.append(ValuePoolEntry(qualifier=f"Q{j}", meaning=f"meaning {j}", ahb_expression=ee))
            inp = {"none": sub.choice([None, ""]), "q1": "Q1", "q2": "Q2", "q3": "Q3", "zz": "ZZ"}[n["inp"]]
            o = DataElementValuePool(discriminator=(shared_discriminator[0] if shared_discriminator else f"n{i}"), value_pool=entries, data_element_id="0333",
                                     entered_input=inp)
            objs[n["par"]].data_elements.append(o)
            exprs[i] = [e.ahb_expression for e in entries]
        objs[i] = o
    deep = DeepAnwendungshandbuch(meta=AhbMetaInformation(pruefidentifikator="11042"), lines=roots)
    _DYN_PACKAGES[id(deep)] = dyn
    for o in objs.values():
        _DYN_PACKAGES[id(o)] = dyn
    if dyn:
        exprs["packages_of_this_ahb"] = dict(dyn)
    return deep, exprs, objs


def rewrite_soll(expr, to):
    """replaces every SOLL indicator word of an AHB expression by Muss / Kann (textual rewriting, C14)"""
    import re
    return re.sub(r"(?<![A-Za-z])(soll|s)(?![A-Za-z])", {"MUSS": "Muss", "KANN": "Kann"}[to], expr, flags=re.IGNORECASE)


STATUS = {"IS_REQUIRED": ("REQUIRED", ""), "IS_OPTIONAL": ("OPTIONAL", ""), "IS_FORBIDDEN": ("FORBIDDEN", "")}
for _b in ("REQUIRED", "OPTIONAL", "FORBIDDEN"):
    for _f in ("FILLED", "EMPTY"):
        STATUS[f"IS_{_b}_AND_{_f}"] = (_b, _f)


_DYN_PACKAGES = {}      # id(object built by build_ahb) -> the packages defined for that AHB only


RC_OTHER = {1: "U", 2: "U", 3: "F", 4: "F", 5: "F", 6: "U"}      # another content evaluation result (for runs that precede the judged one)


def setup_cer(obj=None, other=False):
    import ahb
    ahb.configure()
    pk = dict(PACKAGES)
    pk.update(_DYN_PACKAGES.get(id(obj), {}) if obj is not None else {})
    if len(_DYN_PACKAGES) > 20000:
        _DYN_PACKAGES.clear()
    if other:
        ahb.set_cer_values(rc=RC_OTHER, fc={k: not v for k, v in FCS.items()}, hints=HINTS, packages=pk)
    else:
        ahb.set_cer_values(rc=RC, fc=FCS, hints=HINTS, packages=pk)


def clone(deep):
    d2 = copy.deepcopy(deep)
    _DYN_PACKAGES[id(d2)] = _DYN_PACKAGES.get(id(deep), {})
    return d2


_HIST = {"n": 0}


async def real_validate(deep, soll, history=False):
    """-> ('ok', [entry dicts]) | ('error', exception name). With history: the SAME task first validates the same AHB under another content
    evaluation result and the other flag value (the judged run must not see anything of it: validation keeps no state between runs)"""
    from ahbicht.validation.validation import validate_deep_anwendungshandbuch
    if history:
        d0 = clone(deep)
        setup_cer(d0, other=True)
        try:
            _HIST["n"] += 1
            # alternately the other flag value and the SAME flag value (a memo keyed with the flag but without the content shows only then)
            await validate_deep_anwendungshandbuch(d0, soll_is_required=(not soll) if _HIST["n"] % 2 else soll)
        except BaseException:  # pylint:disable=broad-except  # noqa: BLE001 - only the judged run counts
            pass
    setup_cer(deep)
    try:
        rs = await validate_deep_anwendungshandbuch(deep, soll_is_required=soll)
    except NotImplementedError as e:
        return "error", "NotImplementedError"
    except BaseException as e:  # pylint:disable=broad-except
        return "exception", f"{type(e).__name__}: {e}"
    return "ok", [project_result(r) for r in rs]


def project_result(r):
    v = r.validation_result
    st, fill = STATUS[str(v.requirement_validation)]
    e = {"id": int(r.discriminator[1:]), "status": st, "fill": fill, "hints": bool(v.hints)}
    pv = getattr(v, "possible_values", None)
    if pv is not None:
        e["offered"] = tuple(int(q[1:]) for q in pv.keys())
        e["flagged"] = v.format_validation_fulfilled is False
    else:
        e["format_ok"] = getattr(v, "format_validation_fulfilled", None)
    return e


def spec_entries(lst):
    """spec result list -> ('error', ..) | ('ok', entries)"""
    if len(lst) == 1 and lst[0]["id"] == 0:
        return "error", "undetermined MUSS / prefix-operator node"
    return "ok", [dict(e) for e in lst]


def compare(real, spec, nodes, judge_pools=False):
    """-> None or a description of the first disagreement between a real result list and the spec's"""
    if real[0] == "exception":
        return f"validation raised {real[1]}"
    if real[0] != spec[0]:
        return f"code: {real[0]} {real[1] if real[0] != 'ok' else ''}; documented: {spec[0]} {spec[1] if spec[0] != 'ok' else ''}"
    if real[0] == "error":
        return None
    ri, si = [e["id"] for e in real[1]], [e["id"] for e in spec[1]]
    if ri != si:
        return f"reported nodes/order {ri}, documented {si}"
    for r, s in zip(real[1], spec[1]):
        n = nodes[r["id"] - 1]
        if n["kind"] == "p":
            if (r["status"] == "FORBIDDEN") != (s["status"] == "FORBIDDEN") or r["fill"] != s["fill"]:
                return f"value pool n{r['id']}: code {r['status']}/{r['fill']}, documented {s['status']}/{s['fill']}"
            if judge_pools and (tuple(r["offered"]) != tuple(s["offered"]) or r["flagged"] != s["flagged"]):
                return f"value pool n{r['id']}: code offers {r['offered']} flagged={r['flagged']}, documented offers {tuple(s['offered'])} flagged={s['flagged']}"
            continue
        if r["status"] != s["status"]:
            return f"node n{r['id']} ({n['kind']}, label {n['lab']}): code {r['status']}, documented {s['status']}"
        if n["kind"] == "f" and n["lab"]["ind"] != "INV" and r["fill"] != s["fill"]:
            return f"free text n{r['id']}: suffix {r['fill']}, documented {s['fill']}"
        if n["lab"]["ind"] == "INV" and not r["hints"]:
            return f"node n{r['id']} has an invalid expression but is reported without the reason as hint"
    return None


def write_model(work: Work, name, max_nodes, seg, free, pools, pool_inputs, invariants):
    """generates MC_<name>.tla (label sets as TLA+ expressions) and its cfg in the work directory"""
    lab = lambda l: '[ind |-> "%s", ful |-> "%s"]' % tuple(l.split("."))
    mod = work.path(f"MC_{name}.tla")
    mod.write_text(f"---- MODULE MC_{name} ----\nEXTENDS Validation\n"
                   f"MCSeg == {{{', '.join(lab(l) for l in seg)}}}\nMCFree == {{{', '.join(lab(l) for l in free)}}}\n"
                   f"MCPools == {{{', '.join(to_tla(tuple(p)) for p in pools)}}}\nMCInputs == {to_tla(set(pool_inputs))}\n====\n")
    cfg = work.path(f"MC_{name}.cfg")
    cfg.write_text(f"CONSTANTS\n MaxNodes = {max_nodes}\n SegLabels <- MCSeg\n FreeLabels <- MCFree\n Pools <- MCPools\n PoolInputs <- MCInputs\n"
                   "INIT MCInit\nNEXT MCNext\n" + "\n".join("INVARIANT " + i for i in invariants) + "\nCHECK_DEADLOCK FALSE\n")
    return str(mod), str(cfg)


ALL_LABELS = [f"{i}.{f}" for i in ("MUSS", "SOLL", "KANN", "PFX") for f in "TFK"] + ["INV.T"]
ALL_INVARIANTS = ["ExactlyOnceInOrder", "ParentDominates", "Suffix", "SollEquivalence", "Containment", "PoolRules"]


class Acc:
    def __init__(self):
        self.viol, self.samples, self.counts, self.distinct = [], [], {}, set()

    def c(self, k, n=1):
        self.counts[k] = self.counts.get(k, 0) + n

    def v(self, d, case):
        if len(self.viol) < 40:
            self.viol.append((d, case))


_CURRENT = {"obs": None}


def case_of(nodes, sd, idx, **kw):
    c = {"nodes": nodes, "seed": sd, "idx": idx, "documented": _CURRENT["obs"]}
    c.update(kw)
    return c


async def check_tree(mode, nodes, obs, sd, idx, acc):
    _CURRENT["obs"] = obs
    rs = sd * 1000003 + idx
    has_soll = any(n["kind"] != "p" and n["lab"]["ind"] == "SOLL" for n in nodes)
    has_inv = any((n["kind"] != "p" and n["lab"]["ind"] == "INV") or (n["kind"] == "p" and "I" in n["pool"]) for n in nodes)
    if mode == "C14" and not has_soll:
        return
    if mode == "C16" and not has_inv:
        return
    if len(nodes) >= 2:
        acc.distinct.add(hash((mode, repr(nodes))))
    deep, exprs, _ = build_ahb(nodes, random.Random(rs))
    results = {}
    for soll in (True, False):
        real = await real_validate(clone(deep), soll, history=(idx % 3 == 0))
        acc.c("validations")
        results[soll] = real
        spec = spec_entries(obs["t" if soll else "f"])
        d = compare(real, spec, nodes, judge_pools=(mode == "C17"))
        if d and mode in ("C13", "C17", "C14", "C16"):
            # every check reports disagreement with the documented result on the trees it looks at
            acc.v(f"soll_is_required={soll}: {d}; expressions {exprs}", case_of(nodes, sd, idx, soll=soll, exprs=exprs))
            return
    roots = [i for i, n in enumerate(nodes, start=1) if n["par"] == 0]
    if len(roots) == 1 and mode in ("C13", "C14"):
        # the single root through validate_segment_level: same result as through validate_deep_anwendungshandbuch
        from ahbicht.validation.validation import validate_segment_level
        for soll in (True, False):
            d2, _, objs2 = build_ahb(nodes, random.Random(rs))
            if idx % 2 == 0:
                # history: the same task has just validated the whole AHB under another content evaluation result
                from ahbicht.validation.validation import validate_deep_anwendungshandbuch as _deep
                d0 = clone(d2)
                setup_cer(d0, other=True)
                try:
                    await _deep(d0, soll_is_required=(not soll) if idx % 4 == 0 else soll)     # the other flag value, or the same flag with other content
                except BaseException:  # pylint:disable=broad-except  # noqa: BLE001 - only the judged call counts
                    pass
            setup_cer(d2)
            acc.c("validations")
            try:
                r2 = ("ok", [project_result(x) for x in await validate_segment_level(objs2[roots[0]], soll_is_required=soll)])
            except NotImplementedError:
                r2 = ("error", "NotImplementedError")
            except BaseException as e:  # pylint:disable=broad-except
                r2 = ("exception", f"{type(e).__name__}: {e}")
            if r2 != results[soll]:
                acc.v(f"validate_segment_level on the root group (soll_is_required={soll}) gives {short(r2)}, validate_deep_anwendungshandbuch gives "
                      f"{short(results[soll])}; expressions {exprs}", case_of(nodes, sd, idx, soll=soll, exprs=exprs))
                return
    if mode == "C13" and sum(1 for n in nodes if n["kind"] in ("f", "p")) >= 2:
        # data elements need not have distinct discriminators (maus allows None): every element is still reported once, in order
        from ahbicht.validation.validation import validate_deep_anwendungshandbuch
        for shared in ((None,), ("same",)):
            d3, _, _ = build_ahb(nodes, random.Random(rs), shared_discriminator=shared)
            setup_cer(d3)
            acc.c("validations")
            try:
                rs3 = await validate_deep_anwendungshandbuch(d3, soll_is_required=True)
                got = [(STATUS[str(r.validation_result.requirement_validation)]) for r in rs3]
            except NotImplementedError:
                got = "error"
            except BaseException as e:  # pylint:disable=broad-except
                got = f"exception {type(e).__name__}"
            base = results[True]
            exp = "error" if base[0] == "error" else [(e["status"], e["fill"]) for e in base[1]] if base[0] == "ok" else None
            if exp is not None and got != exp:
                acc.v(f"with the discriminator {shared[0]!r} on every data element the result is {got}; with distinct discriminators it is {exp} "
                      f"(every element exactly once, in order); expressions {exprs}", case_of(nodes, sd, idx, soll=True, exprs=exprs))
                return
    if mode == "C14":
        for soll, to in ((True, "MUSS"), (False, "KANN")):
            deep2, exprs2, _ = build_ahb(nodes, random.Random(rs), soll_to=to)
            for s2 in (True, False):
                real2 = await real_validate(clone(deep2), s2)
                acc.c("validations")
                if strip(real2) != strip(results[soll]):
                    acc.v(f"soll_is_required={soll} gives {short(results[soll])} but the AHB with SOLL rewritten to {to} (flag {s2}) gives {short(real2)}; "
                          f"expressions {exprs} -> {exprs2}", case_of(nodes, sd, idx, soll=soll, exprs=exprs, rewritten=exprs2))
                    return
    if mode == "C16":
        deep2, exprs2, _ = build_ahb(nodes, random.Random(rs), inv_to_kann=True)
        inv = {i for i, n in enumerate(nodes, start=1) if n["kind"] != "p" and n["lab"]["ind"] == "INV"}
        for soll in (True, False):
            real2 = await real_validate(clone(deep2), soll)
            acc.c("validations")
            r1 = results[soll]
            if r1[0] != real2[0]:
                acc.v(f"invalid expressions change whether validation completes: {short(r1)} vs {short(real2)} with 'Kann'; expressions {exprs}",
                      case_of(nodes, sd, idx, soll=soll, exprs=exprs))
                return
            if r1[0] == "ok":
                a = [e for e in strip(r1)[1] if e["id"] not in inv]
                b = [e for e in strip(real2)[1] if e["id"] not in inv]
                if a != b:
                    acc.v(f"nodes other than the invalid ones differ from the AHB with 'Kann': {a} vs {b}; expressions {exprs}",
                          case_of(nodes, sd, idx, soll=soll, exprs=exprs))
                    return
    if len(acc.samples) < 3 and len(nodes) >= 3 and random.Random(rs).random() < 0.01:
        acc.samples.append({"nodes": [(n["kind"], n["par"], n["lab"] if n["kind"] != "p" else n["pool"], n["inp"]) for n in nodes],
                            "expressions": exprs, "code_result_soll_true": short(results[True])})


def strip(r):
    """real result without presence of hints (not fixed by C14/C16 for nodes other than the invalid ones)"""
    if r[0] != "ok":
        return r
    return r[0], [{k: v for k, v in e.items() if k != "hints"} for e in r[1]]


def short(r):
    if r[0] != "ok":
        return r
    return [(e["id"], e["status"] + ("/" + e["fill"] if e["fill"] else "")) for e in r[1]]


def _worker(args):
    mode, dump, shard, nshards, sd, stride = args
    import ahb  # noqa: F401  (first: warning filters, sys.path)
    acc = Acc()

    async def go():
        idx = -1
        for st in dump_states(dump, shard, nshards):
            idx += 1
            nodes = list(st["nodes"])
            if not nodes:
                continue
            gi = idx * nshards + shard
            if stride > 1 and (gi + sd) % stride:
                continue
            try:
                await check_tree(mode, nodes, st["obs"], sd, gi, acc)
            except Exception as e:
                raise MachineryError(f"harness exception on {nodes}: {type(e).__name__}: {e}") from e
            if len(acc.viol) >= 40:
                break

    asyncio.run(go())
    return acc.viol, acc.samples, acc.counts, acc.distinct


def replay_dump(mode, dump, res: Result, stride=1):
    from c02 import merge
    with mp.get_context("fork").Pool(16) as pool:
        merge(res, pool.map(_worker, [(mode, str(dump), i, 16, seed(), stride) for i in range(16)]))
    res.coverage["traces_validated_against_impl"] = res.coverage.get("validations", 0)
    res.coverage["evaluations"] = res.coverage.get("validations", 0)


def replay_case(mode, case):
    from evalcheck import _tuplify
    import ahb  # noqa: F401

    def fix(n):
        n = dict(n)
        n["pool"] = tuple(n["pool"])
        return n

    nodes = [fix(n) for n in case["nodes"]]
    print("tree:", [(n["kind"], n["par"], n["lab"] if n["kind"] != "p" else n["pool"], n["inp"]) for n in nodes])
    obs = case.get("documented")
    if obs:
        obs = {k: ([dict(e, offered=tuple(e.get("offered", ()))) for e in v] if isinstance(v, list) else v) for k, v in obs.items()}
        acc = Acc()
        asyncio.run(check_tree(mode, nodes, obs, case["seed"], case["idx"], acc))
        for d, _ in acc.viol:
            print(d)
        return 1 if acc.viol else 0
    deep, exprs, _ = build_ahb(nodes, random.Random(case["seed"] * 1000003 + case["idx"]))
    print("expressions:", exprs)
    for soll in (True, False):
        print(f"soll_is_required={soll}:", short(asyncio.run(real_validate(clone(deep), soll))))
    return 1


# ------------------------------------------------------------------ code -> spec on large random AHBs (ValidationTrace.tla)
def random_nodes(rng, n, labels, pools, inputs=("none", "q1", "q2", "zz")):
    """a random AHB with n nodes in the encoding of Validation.tla (document order, sub-groups before segments)"""
    nodes = []

    def ancestors(i):
        out = []
        while i:
            out.append(i)
            i = nodes[i - 1]["par"]
        return out

    while len(nodes) < n:
        last = len(nodes)
        open_nodes = ancestors(last) if last else []
        cands = [("g", 0)]
        for i in open_nodes:
            k = nodes[i - 1]["kind"]
            if k == "g":
                cands.append(("s", i))
                if not any(m["par"] == i and m["kind"] == "s" for m in nodes):
                    cands.append(("g", i))
            elif k == "s":
                cands += [("f", i), ("f", i), ("p", i)]
        kind, par = rng.choice(cands)
        ind, ful = rng.choice(labels).split(".")
        node = {"kind": kind, "par": par, "lab": {"ind": ind, "ful": ful}, "inp": "none", "pool": ()}
        if kind == "f":
            node["inp"] = rng.choice(["none", "text"])
        if kind == "p":
            node["lab"] = {"ind": "NONE", "ful": "T"}
            node["pool"] = tuple(rng.choice(pools))
            node["inp"] = rng.choice([i for i in inputs if i in ("none", "zz") or int(i[1]) <= len(node["pool"])])
        nodes.append(node)
    return nodes


def wide_nodes(rng, fan, where, labels):
    """an AHB in which ONE node has `fan` children (where: 'roots' | 'groups' | 'segments' | 'elements'), the last few of them with sub-trees of their own"""
    def node(kind, par):
        ind, ful = rng.choice(labels).split(".")
        n = {"kind": kind, "par": par, "lab": {"ind": ind, "ful": ful}, "inp": "none", "pool": ()}
        if kind == "f":
            n["inp"] = rng.choice(["none", "text"])
        return n
    req = lambda kind, par: dict(node(kind, par), lab={"ind": "MUSS", "ful": "T"})     # the wide node itself is visited
    nodes = []
    if where == "roots":
        for j in range(fan):
            nodes.append(node("g", 0))
            if j >= fan - 3:
                nodes.append(node("s", len(nodes)))
    elif where == "groups":
        nodes.append(req("g", 0))
        for j in range(fan):
            nodes.append(node("g", 1))
            if j >= fan - 3:
                nodes.append(node("s", len(nodes)))
        nodes.append(node("s", 1))
    elif where == "segments":
        nodes.append(req("g", 0))
        for j in range(fan):
            nodes.append(node("s", 1))
            if j >= fan - 3:
                nodes.append(node("f", len(nodes)))
    else:
        nodes.append(req("g", 0))
        nodes.append(req("s", 1))
        for j in range(fan):
            nodes.append(node("f", 2))
    return nodes


def trace_validation(res, work, n_traces, max_nodes=30, wide=()):
    """real results for random large AHBs, decided by TLC against Validate"""
    import ahb  # noqa: F401
    from common import validate_traces
    rng = random.Random(seed() * 211 + 9)
    labels = ["MUSS.T", "MUSS.T", "MUSS.T", "KANN.T", "SOLL.T", "PFX.T", "MUSS.F", "KANN.F", "SOLL.K", "KANN.K", "INV.T", "MUSS.K"]
    pools = [("T",), ("F",), ("T", "F"), ("F", "F"), ("F", "T", "T"), ("I", "F"), ("K", "T"), ("T", "T", "F")]
    traces = []

    async def go():
        wide_specs = [(f, w) for f in wide for w in ("roots", "groups", "segments", "elements")]
        rng.shuffle(wide_specs)
        for tid in range(1, n_traces + 1):
            if tid <= len(wide_specs):
                # wide fan-out (limits of batching / chunking sit at powers of two and round numbers)
                nodes = wide_nodes(rng, wide_specs[tid - 1][0], wide_specs[tid - 1][1], labels[:9])
            else:
                nodes = random_nodes(rng, rng.randint(5, max_nodes), labels if rng.random() < 0.8 else labels[:6], pools)
            soll = rng.random() < 0.5
            deep, exprs, _ = build_ahb(nodes, random.Random(tid * 7919 + seed()))
            real = await real_validate(deep, soll, history=True)
            if real[0] == "exception":
                res.violation(f"validation of a random AHB with {len(nodes)} nodes raised {real[1]}; expressions {exprs}", {"nodes": nodes, "soll": soll, "seed": seed(), "idx": tid})
                continue
            if real[0] == "error":
                result = [{"id": 0, "status": "ERROR", "fill": "", "flagged": False, "offered": []}]
            else:
                result = []
                for e in real[1]:
                    k = nodes[e["id"] - 1]["kind"]
                    st = e["status"]
                    if k == "p" and st != "FORBIDDEN":
                        st = "REQUIRED"          # the REQUIRED/OPTIONAL component of a pool's status is not judged (DESIGN 6.6b)
                    result.append({"id": e["id"], "status": st, "fill": e["fill"], "flagged": bool(e.get("flagged", False)), "offered": list(e.get("offered", []))})
            traces.append({"id": tid, "nodes": [dict(n, pool=list(n["pool"])) for n in nodes], "soll": soll, "result": result, "exprs": exprs})

    asyncio.run(go())
    slim = [{k: v for k, v in t.items() if k != "exprs"} for t in traces]
    t2, acc, diag = validate_traces("ValidationTrace", "ValidationTrace.cfg", slim, work, tag="valtrace")
    res.add_tlc(f"ValidationTrace: real results for {len(traces)} random AHBs of 5..{max_nodes} nodes (and AHBs with a fan-out of {list(wide)}) decided by TLC against Validate", t2)
    res.count("traces_validated_against_impl", len(traces))
    for t in traces:
        res.distinct(("valtrace", repr(t["nodes"]), t["soll"]))
        if t["id"] not in acc:
            at, exp = diag.get(t["id"], (0, ()))
            got = t["result"][at - 1] if 0 < at <= len(t["result"]) else None
            res.violation(f"random AHB with {len(t['nodes'])} nodes (soll_is_required={t['soll']}): result entry {at} is {got}, the documented walk gives {exp}; "
                          f"expressions {t['exprs']}", {"nodes": t["nodes"], "soll": t["soll"], "seed": seed(), "idx": t["id"]})
    if traces:
        res.sample({"random_ahb_nodes": len(traces[-1]["nodes"]), "soll": traces[-1]["soll"], "real_result_head": traces[-1]["result"][:4]})


def large_metamorphic(mode, res, n_trees, max_nodes=25):
    """C14 / C16 on random AHBs far beyond the exhaustive bound (real code on both sides; the documented result for these trees is decided
    by TLC in C13's ValidationTrace)"""
    import ahb  # noqa: F401
    rng = random.Random(seed() * 313 + (14 if mode == "C14" else 16))
    labels = (["SOLL.T", "SOLL.T", "SOLL.F", "SOLL.K", "MUSS.T", "MUSS.T", "KANN.T", "PFX.T", "MUSS.F", "KANN.K"] if mode == "C14"
              else ["INV.T", "INV.T", "MUSS.T", "MUSS.T", "KANN.T", "SOLL.T", "PFX.T", "MUSS.F", "KANN.K"])
    pools = [("T",), ("T", "F"), ("F", "F"), ("I", "F"), ("F", "I", "T"), ("I", "I")] if mode == "C16" else [("T", "F"), ("F", "T", "T")]

    async def go():
        for tid in range(1, n_trees + 1):
            nodes = random_nodes(rng, rng.randint(6, max_nodes), labels, pools)
            rs = tid * 104729 + seed()
            deep, exprs, _ = build_ahb(nodes, random.Random(rs))
            res.distinct((mode, "large", repr(nodes)))
            for soll in (True, False):
                base = await real_validate(clone(deep), soll)
                res.count("validations")
                if base[0] == "exception":
                    res.violation(f"validation of a random AHB with {len(nodes)} nodes raised {base[1]}; expressions {exprs}", case_of(nodes, seed(), tid, soll=soll))
                    return
                if mode == "C14":
                    to = "MUSS" if soll else "KANN"
                    d2, e2, _ = build_ahb(nodes, random.Random(rs), soll_to=to)
                    for s2 in (True, False):
                        other = await real_validate(clone(d2), s2)
                        res.count("validations")
                        if strip(other) != strip(base):
                            res.violation(f"random AHB with {len(nodes)} nodes: soll_is_required={soll} gives {short(base)} but the AHB with SOLL rewritten to {to} "
                                          f"(flag {s2}) gives {short(other)}; expressions {exprs}", case_of(nodes, seed(), tid, soll=soll, exprs=exprs))
                            return
                else:
                    inv = {i for i, n in enumerate(nodes, start=1) if n["kind"] != "p" and n["lab"]["ind"] == "INV"}
                    d2, e2, _ = build_ahb(nodes, random.Random(rs), inv_to_kann=True)
                    other = await real_validate(clone(d2), soll)
                    res.count("validations")
                    if base[0] != other[0]:
                        res.violation(f"random AHB with {len(nodes)} nodes: invalid expressions change whether validation completes: {short(base)} vs "
                                      f"{short(other)}; expressions {exprs}", case_of(nodes, seed(), tid, soll=soll, exprs=exprs))
                        return
                    if base[0] == "ok":
                        a = [e for e in strip(base)[1] if e["id"] not in inv]
                        b = [e for e in strip(other)[1] if e["id"] not in inv]
                        bad = [e for e in base[1] if e["id"] in inv and (e["status"] != "OPTIONAL" or not e["hints"])]
                        if a != b or bad:
                            res.violation(f"random AHB with {len(nodes)} nodes: {'invalid nodes not optional-with-hint: ' + str(bad) if bad else 'other nodes differ from the AHB with Kann'}; "
                                          f"expressions {exprs}", case_of(nodes, seed(), tid, soll=soll, exprs=exprs))
                            return

    asyncio.run(go())
    res.coverage["traces_validated_against_impl"] = res.coverage.get("validations", 0)
    res.coverage["evaluations"] = res.coverage.get("validations", 0)
    res.coverage["large_random_ahbs"] = n_trees
