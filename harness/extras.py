"""Conformance beyond the listed properties (DESIGN section 10 / 12.7): specification modules that describe more of the system's behaviour
and are bound to the code in the same way, but do not decide a listed property. Run: ./check-extras (exit 0 = conforms; deviations that no
listed property covers are printed as OBSERVATION, never as VIOLATION)."""
import json
import sys

from common import VERIF, Work, dump_states, main_wrapper, run_tlc


def provider_conformance(work):
    import ahb  # noqa: F401
    from ahbicht.content_evaluation.fc_evaluators import DictBasedFcEvaluator
    from ahbicht.content_evaluation.rc_evaluators import DictBasedRcEvaluator
    from ahbicht.content_evaluation.token_logic_provider import SingletonTokenLogicProvider
    from ahbicht.expressions.hints_provider import DictBasedHintsProvider
    from ahbicht.expressions.package_expansion import DictBasedPackageResolver
    from efoli import EdifactFormat, EdifactFormatVersion
    dump = work.path("provider.dump")
    t = run_tlc("Provider", "Provider.cfg", work, dump=dump)
    make = {"rc": lambda: DictBasedRcEvaluator({}), "fc": lambda: DictBasedFcEvaluator({}), "hints": lambda: DictBasedHintsProvider({}),
            "pkg": lambda: DictBasedPackageResolver({})}
    getter = {"rc": "get_rc_evaluator", "fc": "get_fc_evaluator", "hints": "get_hints_provider", "pkg": "get_package_resolver"}
    fmt = {"UTILMD": EdifactFormat.UTILMD, "MSCONS": EdifactFormat.MSCONS, "none": None}
    ver = {"FV2210": EdifactFormatVersion.FV2210, "none": None}
    n = agree = 0
    deviations = {}
    for st in dump_states(dump):
        inputs = st["inputs"]
        if not inputs:
            continue
        insts = []
        for i in inputs:
            o = make[i["kind"]]()
            if i["fmt"] != "none":
                o.edifact_format = fmt[i["fmt"]]
            if i["ver"] != "none":
                o.edifact_format_version = ver[i["ver"]]
            insts.append(o)
        n += 1
        undeclared = any(i["fmt"] == "none" or i["ver"] == "none" for i in inputs)
        try:
            p = SingletonTokenLogicProvider(insts)
            failed = 0
        except ValueError:
            failed = -1
        exp_failed = st["obs"]["failed"]
        ok = (failed != 0) == (exp_failed != 0)
        if ok and failed == 0:
            for q, idx in st["obs"]["lookups"].items():
                try:
                    got = getattr(p, getter[q[0]])(fmt[q[1]], ver[q[2]])
                    gi = insts.index(got) + 1
                except NotImplementedError:
                    gi = 0
                if gi != idx:
                    ok = False
                    break
        if ok:
            agree += 1
        else:
            key = "inputs with an instance that does not declare format/version" if undeclared else "all instances declare format and version"
            deviations.setdefault(key, []).append([dict(i) for i in inputs])
    return {"module": "Provider.tla", "states": t["states"], "configurations_replayed": n, "agree": agree,
            "deviations": {k: {"count": len(v), "example": v[0]} for k, v in deviations.items()}}


def repeatability_conformance():
    """parse_repeatability against the lexical shape Lexer.tla gives repeatabilities (digits '..' digits)"""
    import ahb  # noqa: F401
    from ahbicht.utility_functions import parse_repeatability
    n = bad = 0
    for a in (0, 1, 7, 10, 123):
        for b in (1, 2, 9, 10, 999):
            n += 1
            try:
                r = parse_repeatability(f"{a}..{b}")
                if a > b or (r.min_occurrences, r.max_occurrences) != (a, b):
                    bad += 1
            except ValueError:
                if a <= b:      # 0 <= n <= m is the documented constraint
                    bad += 1
    for s in ("", "1", "1..", "..2", "1...2", "a..b", "1..2..3", " 1..2"):
        n += 1
        try:
            parse_repeatability(s)
            bad += 1
        except ValueError:
            pass
    return {"function": "parse_repeatability", "cases": n, "deviations": bad}


def run():
    work = Work("extras")
    import dataelement
    import dispatch
    import evalcheck
    hints = evalcheck.hint_wording_conformance(work)
    out = {"hint_wording": hints, "provider": provider_conformance(work), "repeatability": repeatability_conformance(), "dispatch": dispatch.conformance(work),
           "data_element": dataelement.conformance(work), "data_element_traces": dataelement.trace_conformance(work, n=1500)}
    work.cleanup()
    (VERIF / "evidence" / "extras.json").write_text(json.dumps(out, indent=1) + "\n")
    for k, v in out["provider"]["deviations"].items():
        print(f"OBSERVATION provider: {v['count']} configurations deviate from Provider.tla ({k}); e.g. {v['example']}")
    print(f"extras: provider {out['provider']['agree']}/{out['provider']['configurations_replayed']} configurations agree; "
          f"repeatability {out['repeatability']['cases'] - out['repeatability']['deviations']}/{out['repeatability']['cases']}")
    for k, v in out["dispatch"]["deviations"].items():
        print(f"OBSERVATION dispatch: {v['count']} calls deviate from Dispatch.tla ({k}); e.g. {v['example']}")
    print(f"extras: dispatch {out['dispatch']['agree']}/{out['dispatch']['calls_replayed']} calls agree ({out['dispatch']['states']} states)")
    for d in out["hint_wording"]["deviations"]:
        print(f"OBSERVATION hint wording: {d}")
    print(f"extras: hint wording {out['hint_wording']['agree']}/{out['hint_wording']['evaluations']} evaluations agree ({out['hint_wording']['states']} states)")
    de = out["data_element"]
    for d in de["deviations"][:5]:
        print(f"OBSERVATION data element: {d['what']}: {d['case']}")
    print(f"extras: data element {de['agree']}/{de['elements_replayed']} elements agree with DataElement.tla ({de['machine_states']} + {de['generator_states']} states; "
          f"{de['not_renderable']} not renderable; actions never taken: {de['actions_never_taken']})")
    dt = out["data_element_traces"]
    for d in dt["rejected"][:5]:
        print(f"OBSERVATION data element run refused by DataElementTrace.tla at event {d['refused_at_event']}: {d['expr']!r} {d['events']}")
    print(f"extras: data element runs {dt['accepted_by_tlc']}/{dt['runs_recorded']} recorded runs accepted by TLC ({dt['distinct_completion_orders']} completion orders; "
          f"{dt['corrupted_copies']} corrupted copies, accepted: {dt['corrupted_copies_accepted']})")
    bad_declared = out["provider"]["deviations"].get("all instances declare format and version")
    # get_evaluation_method of the mapping based evaluators is a known deviation from its documentation (DESIGN 12.5a); anything else fails
    bad_dispatch = [k for k in out["dispatch"]["deviations"] if not (k.endswith("/get_method") and k.split("/")[1] in ("dict", "cer"))]
    return 1 if (bad_declared or out["repeatability"]["deviations"] or bad_dispatch or out["hint_wording"]["deviations"] or de["deviation_count"] or de["actions_never_taken"]
                 or de["elements_replayed"] == 0 or dt["rejected_count"] or dt["corrupted_copies_accepted"]) else 0


if __name__ == "__main__":
    main_wrapper(run)
