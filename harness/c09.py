"""C09 - AHB expressions are split into their parts in written order (AhbSplit.tla); the first fulfilled part decides (AhbEval.tla)."""
import asyncio
import multiprocessing as mp
import random

import ahbsplit as AS
from common import MachineryError, Result, Work, dump_states, main_wrapper, run_tlc, seed, tier

PID = "C09"
IND_WORDS = dict(AS.MODAL_WORDS)
IND_WORDS.update({"MUSS": AS.MODAL_WORDS["M"], "SOLL": AS.MODAL_WORDS["S"], "KANN": AS.MODAL_WORDS["K"],
                  "X": ["X", "x"], "O": ["O", "o"], "U": ["U", "u"]})
B2S = {True: "true", False: "false", None: "none"}


class Acc:
    def __init__(self):
        self.viol, self.samples, self.counts, self.distinct = [], [], {}, set()

    def c(self, k, n=1):
        self.counts[k] = self.counts.get(k, 0) + n

    def v(self, d, case):
        if len(self.viol) < 60:
            self.viol.append((d, case))


async def split_state(st, idx, sd, acc):
    from ahbicht.expressions.expression_resolver import parse_expression_including_unresolved_subexpressions
    if not st["obs"]["acc"] or st["obs"]["parts"] == ():
        return
    rng = random.Random(sd * 1000003 + idx)
    toks = list(st["consumed"])
    for variant in range(2):
        s, info = AS.render(toks, rng, plain=(variant == 0), kinds=("key", "key", "pkg", "rep", "time"))
        acc.c("parses")
        case = {"kind": "split", "string": s, "tokens": toks, "expected": st["obs"]["parts"]}
        try:
            tree = await parse_expression_including_unresolved_subexpressions(s, resolve_packages=False, replace_time_conditions=False)
        except SyntaxError:
            acc.v(f"{s!r} (tokens {' '.join(toks)}) is one of the documented forms but is rejected with SyntaxError", case)
            continue
        except BaseException as e:  # pylint:disable=broad-except
            acc.v(f"parsing {s!r} raised {type(e).__name__}", case)
            continue
        proj = AS.project(tree, info)
        got = tuple((p[0], p[1]) for p in proj[1]) if proj[0] == "ahb" else proj
        if got != tuple((p[0], p[1]) for p in st["obs"]["parts"]):
            acc.v(f"{s!r} is split into {got}, the documented split (written order, normalised indicators) is {st['obs']['parts']}", case)
        elif len(acc.samples) < 2 and len(st["obs"]["parts"]) >= 3 and variant == 1:
            acc.samples.append({"string": s, "spec_parts": st["obs"]["parts"]})
    if len(st["obs"]["parts"]) >= 2:
        acc.distinct.add(hash(("split",) + tuple(toks)))


def build_expression(parts, rng):
    """spec parts -> (expression string, [condition string or None per part], assignment dicts)"""
    rc, fc = {}, {}
    conds = []
    s = ""
    for i, p in enumerate(parts, start=1):
        word = rng.choice(IND_WORDS[p["ind"]])
        if p["bare"]:
            conds.append(None)
            s += word
            continue
        k, h, f = i, 500 + i, 900 + i
        fc[f] = rng.random() < 0.5
        fc[f + 10] = rng.random() < 0.5
        if p["st"] == "N":
            cond = rng.choice([f"[{h}]", f"[{h}][{f}]", f"[{h}]U[{f}]", f"[{f}]", f"[{f}]O[{f + 10}]"])
        else:
            rc[k] = p["st"]
            cond = rng.choice([f"[{k}]", f"[{k}]U[{h}]", f"[{k}][{f}]", f"[{k}]U[{f}]", f"([{k}]O[{k}])U[{h}][{f}]", f"[{k}][{f}]U[{f + 10}]",
                               f"[{k}]∧[{h}]∧([{f}]⊻[{f + 10}])"])
        conds.append(cond)
        s += word + rng.choice(["", " ", "  "]) + cond + rng.choice(["", " ", "\t"])
    return s, conds, rc, fc


async def eval_state(st, idx, sd, acc):
    import ahb
    from ahbicht.expressions.ahb_expression_evaluation import evaluate_ahb_expression_tree
    from ahbicht.expressions.expression_resolver import parse_expression_including_unresolved_subexpressions
    from ahbicht.expressions.format_constraint_expression_evaluation import format_constraint_evaluation
    from ahbicht.expressions.requirement_constraint_expression_evaluation import requirement_constraint_evaluation
    res = st["result"]
    if res == ():
        return
    parts = list(st["parts"])
    rng = random.Random(sd * 1000003 + idx)
    expr, conds, rc, fc = build_expression(parts, rng)
    expr = expr.rstrip() if parts[-1]["bare"] else expr
    hints = {500 + i: ahb.hint_text(500 + i) for i in range(1, 8)}
    case = {"kind": "eval", "expr": expr, "parts": parts, "rc": rc, "fc": fc, "spec": res}
    acc.c("evaluations")
    if len(parts) >= 2:
        acc.distinct.add(hash(("eval", expr, tuple(sorted(rc.items())), tuple(sorted(fc.items())))))
    ahb.set_cer_values(rc=rc, fc=fc, hints=hints)
    try:
        if idx % 4 == 0:
            # fault history: refused near misses of the same string (leading blank, a key split by a blank, sharp s, full-width characters) were handled before
            from common import near_misses
            for nm in near_misses(expr):
                try:
                    await evaluate_ahb_expression_tree(await parse_expression_including_unresolved_subexpressions(nm))
                except BaseException:  # noqa: BLE001 - not judged here
                    pass
            acc.c("evaluations_after_refused_near_misses")
        tree = await parse_expression_including_unresolved_subexpressions(expr)
        r = await evaluate_ahb_expression_tree(tree)
    except BaseException as e:  # pylint:disable=broad-except
        acc.v(f"evaluating {expr!r} with {rc} raised {type(e).__name__}: {e}", case)
        return
    rr = r.requirement_constraint_evaluation_result
    fr = r.format_constraint_evaluation_result
    if str(r.requirement_indicator.value) != res["ind"]:
        acc.v(f"{expr!r} with {rc}: reported indicator {r.requirement_indicator.value}, the deciding part is #{res['index']} ({res['ind']})", case)
        return
    if B2S[rr.requirement_constraints_fulfilled] != res["fulfilled"]:
        acc.v(f"{expr!r} with {rc}: reported fulfilled={rr.requirement_constraints_fulfilled}, part #{res['index']} gives {res['fulfilled']}", case)
        return
    if len(parts) == 1 and B2S[rr.requirement_is_conditional] != res["conditional"]:
        acc.v(f"{expr!r} with {rc}: reported conditional={rr.requirement_is_conditional}, expected {res['conditional']}", case)
    # the reported outcome, hints and format result are exactly those of the deciding part's own condition expression
    cond = conds[res["index"] - 1]
    if cond is None:
        own = (True, None, None, True, None)
    else:
        ahb.set_cer_values(rc=rc, fc=fc, hints=hints)
        o = await requirement_constraint_evaluation(cond)
        f = await format_constraint_evaluation(o.format_constraints_expression)
        own = (o.requirement_constraints_fulfilled, o.hints, o.format_constraints_expression, f.format_constraints_fulfilled, f.error_message)
    got = (rr.requirement_constraints_fulfilled, rr.hints, rr.format_constraints_expression, fr.format_constraints_fulfilled, fr.error_message)
    if got != own:
        acc.v(f"{expr!r} with {rc}, {fc}: reported (fulfilled, hints, fc expression, format ok, format message) = {got}, the deciding part "
              f"'{cond}' on its own gives {own}", case)
    elif len(acc.samples) < 4 and len(parts) >= 2 and rng.random() < 0.01:
        acc.samples.append({"expr": expr, "rc": rc, "fc": fc, "spec_deciding_part": res["index"], "reported": [str(r.requirement_indicator.value), got]})
    if idx % 7 == 0:       # a bare indicator counts as fulfilled and unconditional - whatever was evaluated before
        word = rng.choice(["Muss", "X", "k", "Soll"])
        try:
            b = await evaluate_ahb_expression_tree(await parse_expression_including_unresolved_subexpressions(word))
        except BaseException as e:  # pylint:disable=broad-except
            acc.v(f"the bare indicator {word!r} raised {type(e).__name__}: {str(e)[:120]}; a bare indicator is an AHB expression and counts as fulfilled",
                  {"kind": "bare-after", "expr": word, "after": expr, "rc": rc, "fc": fc})
            return
        br = b.requirement_constraint_evaluation_result
        acc.c("evaluations")
        if br.requirement_constraints_fulfilled is not True or br.requirement_is_conditional is not False or br.hints is not None \
                or b.format_constraint_evaluation_result.format_constraints_fulfilled is not True:
            acc.v(f"bare indicator {word!r} evaluated after {expr!r}: {br}; it counts as fulfilled and unconditional",
                  {"kind": "bare-after", "expr": word, "after": expr, "rc": rc, "fc": fc})


EXOTIC = ["Kann[1]", "Kann [1] Muss[2]", "Muſs[1]", "ſoll[1]U[2]", "K[1]", "muſs[1] Kann"]


async def exotic(res):
    """spellings that are case variants only in the Unicode sense: either SyntaxError or evaluated with the normalised indicator"""
    import ahb
    from ahbicht.expressions.ahb_expression_evaluation import evaluate_ahb_expression_tree
    from ahbicht.expressions.expression_resolver import parse_expression_including_unresolved_subexpressions
    for s in EXOTIC:
        ahb.set_cer_values(rc={1: "F", 2: "F"}, fc={}, hints={})
        try:
            r = await evaluate_ahb_expression_tree(await parse_expression_including_unresolved_subexpressions(s))
        except SyntaxError:
            continue
        except BaseException as e:  # pylint:disable=broad-except
            res.violation(f"{s!r} is accepted by the parser but evaluation raises {type(e).__name__}: {e}", {"kind": "exotic", "expr": s})
            continue
        res.count("evaluations")
        exp = {"k": "KANN", "K": "KANN", "m": "MUSS", "ſ": "SOLL"}[s[0].lower() if s[0] != "K" else "k"]
        if str(r.requirement_indicator.value) != exp:
            res.violation(f"{s!r}: indicator {r.requirement_indicator.value}, expected {exp}", {"kind": "exotic", "expr": s})


def long_expressions(res, work, n):
    """random AHB expressions with 4-9 parts: the state of every part is obtained by evaluating its condition ON ITS OWN with the real code; which part decides is
    decided by TLC (AhbEvalTrace.tla)"""
    import ahb
    from common import validate_traces
    from ahbicht.expressions.ahb_expression_evaluation import evaluate_ahb_expression_tree
    from ahbicht.expressions.expression_resolver import parse_expression_including_unresolved_subexpressions
    from ahbicht.expressions.requirement_constraint_expression_evaluation import requirement_constraint_evaluation
    rng = random.Random(seed() * 409 + 9)
    hints = {500 + i: ahb.hint_text(500 + i) for i in range(1, 30)}
    traces = []

    async def go():
        for tid in range(1, n + 1):
            k = rng.randint(4, 9)
            if rng.random() < 0.1:
                parts = [{"ind": rng.choice(["X", "O", "U"]), "bare": rng.random() < 0.2, "st": rng.choice("FUKN")}]
            else:
                bias = rng.choice(["U", "U", "K", None])          # mostly unfulfilled parts in front, so that late parts decide
                parts = [{"ind": rng.choice(["MUSS", "SOLL", "KANN"]), "bare": False, "st": (bias if bias and rng.random() < 0.7 else rng.choice("FUKN"))} for _ in range(k)]
                if rng.random() < 0.3:
                    parts[-1]["bare"] = True
            expr, conds, rc, fc = build_expression(parts, rng)
            expr = expr.rstrip() if parts[-1]["bare"] else expr
            logged = []
            for p, c in zip(parts, conds):
                if c is None:
                    logged.append({"ind": p["ind"], "bare": True, "st": "N"})
                    continue
                ahb.set_cer_values(rc=rc, fc=fc, hints=hints)
                o = await requirement_constraint_evaluation(c)
                st = {(True, True): "F", (True, False): "N", (False, True): "U", (None, None): "K"}[(o.requirement_constraints_fulfilled, o.requirement_is_conditional)]
                logged.append({"ind": p["ind"], "bare": False, "st": st})
            ahb.set_cer_values(rc=rc, fc=fc, hints=hints)
            try:
                r = await evaluate_ahb_expression_tree(await parse_expression_including_unresolved_subexpressions(expr))
            except BaseException as e:  # pylint:disable=broad-except
                res.violation(f"evaluating {expr!r} with {rc} raised {type(e).__name__}: {e}", {"kind": "long", "expr": expr, "rc": rc, "fc": fc})
                continue
            traces.append({"id": tid, "parts": logged, "expr": expr, "rc": rc,
                           "result": {"ind": str(r.requirement_indicator.value), "fulfilled": B2S[r.requirement_constraint_evaluation_result.requirement_constraints_fulfilled]}})

    asyncio.run(go())
    slim = [{k: v for k, v in t.items() if k not in ("expr", "rc")} for t in traces]
    t2, acc, diag = validate_traces("AhbEvalTrace", "AhbEvalTrace.cfg", slim, work, tag="ahbevaltrace")
    res.add_tlc(f"AhbEvalTrace: real results of {len(traces)} random AHB expressions with 4-9 parts decided by TLC (first fulfilled part, else the last)", t2)
    res.count("evaluations", len(traces))
    for t in traces:
        res.distinct(("long", t["expr"], tuple(sorted(t["rc"].items()))))
        if t["id"] not in acc:
            at, exp = diag.get(t["id"], (0, ()))
            res.violation(f"{t['expr']!r} with {t['rc']}: reported {t['result']}; the parts evaluate to {[p['st'] if not p['bare'] else 'bare' for p in t['parts']]}, "
                          f"so the deciding part gives {exp}", {"kind": "long", "expr": t["expr"], "rc": t["rc"]})


def _worker(args):
    which, dump, shard, nshards, sd = args
    import ahb
    ahb.configure()
    acc = Acc()

    async def go():
        idx = -1
        for st in dump_states(dump, shard, nshards):
            idx += 1
            try:
                if which == "split":
                    await split_state(st, idx * nshards + shard, sd, acc)
                else:
                    await eval_state(st, idx * nshards + shard, sd, acc)
            except Exception as e:
                raise MachineryError(f"harness exception on {st}: {type(e).__name__}: {e}") from e
            if len(acc.viol) >= 60:
                break

    asyncio.run(go())
    return acc.viol, acc.samples, acc.counts, acc.distinct


def run():
    from c02 import merge
    res = Result(PID)
    work = Work(PID)
    thorough = tier() == "thorough"
    ntok = 10 if thorough else 8
    cfg = work.path("split.cfg")
    cfg.write_text(f"CONSTANTS\n MaxTok = {ntok}\n Alphabet = {{\"M\", \"S\", \"K\", \"a\", \"U\", \"X\", \"O\"}}\nINIT MCInit\nNEXT MCNext\n" + "\n".join(
        "INVARIANT " + i for i in ["PartsWellFormed", "ViabilityIsExact", "SplitIsLossless", "OnePrefixPart", "BareOnlyLast", "ObsIsConsistent"]) + "\nCHECK_DEADLOCK FALSE\n")
    dump = work.path("split.dump")
    t = run_tlc("AhbSplit", str(cfg), work, dump=dump, timeout=3000)
    res.add_tlc(f"AhbSplit: all viable prefixes <= {ntok} tokens over modal words, prefix operators, operands and U/X/O (up to {ntok // 2} parts)", t)
    with mp.get_context("fork").Pool(16) as pool:
        merge(res, pool.map(_worker, [("split", str(dump), i, 16, seed()) for i in range(16)]))
    dump.unlink()
    nparts = 4 if thorough else 3
    cfg2 = work.path("eval.cfg")
    cfg2.write_text(f"CONSTANTS\n MaxParts = {nparts}\nINIT Init\nNEXT Next\nINVARIANT SelectedIsFirstFulfilledElseLast\nINVARIANT LaterPartsIrrelevant\nINVARIANT Shape\nCHECK_DEADLOCK FALSE\n")
    dump2 = work.path("eval.dump")
    t2 = run_tlc("AhbEval", str(cfg2), work, dump=dump2, timeout=3000)
    res.add_tlc(f"AhbEval: every part list <= {nparts} parts x indicator x bare/condition x four-valued state; selection invariants", t2)
    with mp.get_context("fork").Pool(16) as pool:
        merge(res, pool.map(_worker, [("eval", str(dump2), i, 16, seed()) for i in range(16)]))
    dump2.unlink()
    import ahb
    ahb.configure()
    asyncio.run(exotic(res))
    long_expressions(res, work, 1500 if thorough else 200)
    res.coverage["traces_validated_against_impl"] = res.coverage.get("parses", 0) + res.coverage.get("evaluations", 0)
    res.coverage["evaluations"] = res.coverage["traces_validated_against_impl"]
    res.coverage["exhaustive"] = True
    res.coverage["rule"] = (f"split: every accepted token sequence <= {ntok} tokens, rendered plainly and with seeded spellings/letter cases/whitespace; "
                            f"evaluation: every part list <= {nparts} parts with every combination of indicator, bare/conditioned and state "
                            "F/U/K/N per part, realised with seeded condition shapes (hints, attached and and-ed format constraints) and FC truth "
                            "values; the reported result is compared with the spec's deciding part and with that part's own evaluation by the real code; "
                            "non-trivial = at least two parts")
    res.assumptions += ["requirement_is_conditional is compared only for single-part expressions (DESIGN 6.6a)",
                        "spellings that are case variants only in the Unicode sense (U+212A, U+017F) may be rejected or must evaluate normally"]
    return res.finish(work)


def replay(case):
    import ahb
    ahb.configure()
    acc = Acc()
    if case["kind"] in ("eval",):
        from ahbicht.expressions.ahb_expression_evaluation import evaluate_ahb_expression_tree
        from ahbicht.expressions.expression_resolver import parse_expression_including_unresolved_subexpressions

        async def go():
            ahb.set_cer_values(rc={int(k): v for k, v in case["rc"].items()}, fc={int(k): v for k, v in case["fc"].items()},
                               hints={500 + i: ahb.hint_text(500 + i) for i in range(1, 8)})
            return await evaluate_ahb_expression_tree(await parse_expression_including_unresolved_subexpressions(case["expr"]))
        r = asyncio.run(go())
        print(case["expr"], case["rc"], "->", r)
        print("spec deciding part:", case["spec"])
        ok = str(r.requirement_indicator.value) == case["spec"]["ind"] and \
            B2S[r.requirement_constraint_evaluation_result.requirement_constraints_fulfilled] == case["spec"]["fulfilled"]
        return 0 if ok else 1
    print("replay of kind", case["kind"], ": re-running the check")
    return run()


if __name__ == "__main__":
    main_wrapper(run)
