"""Spec -> code conformance for spec/DataElement.tla (end-to-end composition for one free-text data element): TLC generates every element
(<= MaxParts parts x state x format verdict x input x segment status x flag) together with the documented result; each is rendered as a concrete
AHB expression and handed to validate_data_element_freetext. Every part's abstract (state, format verdict) is first re-established by evaluating the
part's condition expression on its own with the real evaluators (otherwise the element is not a rendering of the model state and is skipped)."""
import asyncio
import random

from common import Work, dump_states, run_tlc

IND_WORDS = {"MUSS": ["Muss", "muss", "M"], "SOLL": ["Soll", "SOLL", "s"], "KANN": ["Kann", "kann", "K"], "PFX": ["X", "O", "U", "x"]}
B2F = {True: "T", False: "F", None: "K"}


def templates(i, st, fc):
    """candidate condition expressions for part i with the abstract (state, format verdict)"""
    k, h, f = i, 500 + i, 900 + i
    if st == "N":
        return [f"[{h}]"] if fc == "none" else [f"[{f}]", f"[{h}][{f}]", f"[{h}]U[{f}]"]
    if fc == "none":
        return [f"[{k}]", f"[{k}]U[{h}]", f"([{k}])"]
    return [f"[{k}][{f}]", f"[{k}]U[{f}]", f"[{k}]U[{h}][{f}]"]


async def own(cond):
    from ahbicht.expressions.format_constraint_expression_evaluation import format_constraint_evaluation
    from ahbicht.expressions.requirement_constraint_expression_evaluation import requirement_constraint_evaluation
    o = await requirement_constraint_evaluation(cond)
    f = await format_constraint_evaluation(o.format_constraints_expression)
    fc = "none" if not o.format_constraints_expression else ("ok" if f.format_constraints_fulfilled else "bad")
    return B2F[o.requirement_constraints_fulfilled], fc, f.error_message


async def check_state(st, sd, idx, acc):
    import ahb
    import valcheck
    from ahbicht.validation.validation import validate_data_element_freetext
    from ahbicht.models.validation_values import RequirementValidationValue as RV
    from maus.models.edifact_components import DataElementFreeText
    parts = list(st["parts"])
    rng = random.Random(sd * 7919 + idx)
    rc, fc, hints = {}, {}, {}
    expr = ""
    for i, p in enumerate(parts, start=1):
        word = rng.choice(IND_WORDS[p["ind"]])
        if p["bare"]:
            expr += word
            continue
        if p["st"] != "N":
            rc[i] = p["st"]
        fc[900 + i] = p["fc"] != "bad"
        hints[500 + i] = ahb.hint_text(500 + i)
        ahb.set_cer_values(rc=rc, fc=fc, hints=hints)
        want_ful = {"F": "T", "N": "T", "U": "F", "K": "K"}[p["st"]]
        cond = None
        cands = templates(i, p["st"], p["fc"])
        rng.shuffle(cands)
        for c in cands:
            try:
                ful, f, _ = await own(c)
            except BaseException:  # noqa: BLE001 - a template the evaluator refuses is simply not a rendering
                continue
            if ful == want_ful and f == p["fc"]:
                cond = c
                break
        if cond is None:
            acc["not_renderable"] += 1
            acc["not_renderable_kinds"].add((p["st"], p["fc"]))
            return
        expr += word + rng.choice(["", " "]) + cond + rng.choice(["", " "])
    expr = expr.rstrip() if parts[-1]["bare"] else expr
    spec = st["out"]
    inp = "abc" if st["inp"] == "text" else rng.choice([None, ""])
    seg = {"NONE": None, "REQUIRED": RV.IS_REQUIRED, "OPTIONAL": RV.IS_OPTIONAL}[st["seg"]]
    de = DataElementFreeText(discriminator="n1", ahb_expression=expr, entered_input=inp, data_element_id="1234")
    ahb.set_cer_values(rc=rc, fc=fc, hints=hints)
    acc["elements"] += 1
    case = {"expr": expr, "rc": rc, "fc": fc, "input": inp, "segment": st["seg"], "soll_is_required": st["soll"], "spec": dict(spec)}
    try:
        r = await validate_data_element_freetext(de, seg, st["soll"])
    except NotImplementedError:
        if spec["status"] != "ERROR":
            acc["deviations"].append(("raised NotImplementedError", case))
        else:
            acc["agree"] += 1
        return
    except BaseException as e:  # pylint:disable=broad-except  # noqa: BLE001
        acc["deviations"].append((f"raised {type(e).__name__}: {str(e)[:100]}", case))
        return
    v = r.validation_result
    got = valcheck.STATUS[str(v.requirement_validation)] + (v.format_validation_fulfilled, bool(v.format_error_message))
    exp = (spec["status"], spec["fill"], spec["fmt"], spec["msg"])
    if got != exp:
        acc["deviations"].append((f"(status, suffix, format ok, message present) = {got}, DataElement.tla gives {exp}", case))
    else:
        acc["agree"] += 1


def conformance(work: Work, max_parts=2, sd=0, stride=1):
    import ahb
    ahb.configure()
    mc = run_tlc("DataElement", "DataElement_mc.cfg", work, coverage=True)         # the staged machine incl. every gather order, all invariants
    cfg = work.path("DataElement_gen.cfg")
    cfg.write_text(_gen_cfg(max_parts))
    dump = work.path("dataelement.dump")
    t = run_tlc("DataElement", str(cfg), work, dump=dump)
    acc = {"elements": 0, "agree": 0, "not_renderable": 0, "not_renderable_kinds": set(), "deviations": []}

    async def go():
        for idx, st in enumerate(dump_states(dump)):
            if st["stage"] != "done" or idx % stride:
                continue
            await check_state(st, sd, idx, acc)
    asyncio.run(go())
    untaken = [ln.strip() for ln in mc["out"].splitlines() if ln.startswith("<") and ": 0:0" in ln]
    return {"module": "DataElement.tla", "machine_states": mc["states"], "generator_states": t["states"], "actions_never_taken": untaken,
            "elements_replayed": acc["elements"], "agree": acc["agree"], "not_renderable": acc["not_renderable"],
            "not_renderable_kinds": sorted(acc["not_renderable_kinds"]),
            "deviations": [{"what": w, "case": c} for w, c in acc["deviations"][:20]], "deviation_count": len(acc["deviations"])}


def _gen_cfg(max_parts):
    from common import SPEC
    return (SPEC / "DataElement_gen.cfg").read_text().replace("MaxParts = 3", f"MaxParts = {max_parts}")


# ---------------------------------------------------------------------------------------------- code -> spec (DataElementTrace.tla)
async def _record_run(n_parts_max, rng, tid):
    """one random element; returns the trace dict or None if a part could not be rendered"""
    import contextvars

    import ahb
    import ahbicht.expressions.ahb_expression_evaluation as aee
    import valcheck
    from ahbicht.models.validation_values import RequirementValidationValue as RV
    from ahbicht.validation.validation import validate_data_element_freetext
    from maus.models.edifact_components import DataElementFreeText
    n = rng.randint(1, n_parts_max)
    prefix = n == 1 and rng.random() < 0.3
    parts, rc, fc, hints, expr = [], {}, {}, {}, ""
    for i in range(1, n + 1):
        ind = "PFX" if prefix else rng.choice(["MUSS", "SOLL", "KANN"])
        bare = (i == n) and rng.random() < 0.3
        st = rng.choice("FUKN")
        f = rng.choice(["none", "ok", "bad"])
        word = rng.choice(IND_WORDS[ind])
        if bare:
            parts.append({"ind": ind, "bare": True, "st": "N", "fc": "none"})
            expr += word
            continue
        if st != "N":
            rc[i] = st
        fc[900 + i] = f != "bad"
        hints[500 + i] = ahb.hint_text(500 + i)
        ahb.set_cer_values(rc=rc, fc=fc, hints=hints)
        cond = rng.choice(templates(i, st, f))
        ful, f_own, _ = await own(cond)
        # the part as the model sees it: what its condition expression gives ON ITS OWN
        st_own = {"T": ("N" if st == "N" else "F"), "F": "U", "K": "K"}[ful]
        parts.append({"ind": ind, "bare": False, "st": st_own, "fc": f_own})
        expr += word + rng.choice(["", " "]) + cond + " "
    expr = expr.rstrip() if parts[-1]["bare"] else expr
    inp = "abc" if rng.random() < 0.5 else rng.choice([None, ""])
    seg_name = rng.choice(["NONE", "REQUIRED", "OPTIONAL"])
    seg = {"NONE": None, "REQUIRED": RV.IS_REQUIRED, "OPTIONAL": RV.IS_OPTIONAL}[seg_name]
    soll = rng.random() < 0.5
    events = []
    cur = contextvars.ContextVar("verif_de_part", default=0)
    real_rc, real_fc = aee.requirement_constraint_evaluation, aee.format_constraint_evaluation

    def part_of(cond_expr):
        from lark import Token, Tree
        if isinstance(cond_expr, Tree):
            keys = [t.value for t in cond_expr.scan_values(lambda v: isinstance(v, Token))]
        else:
            import re
            keys = re.findall(r"\d+", str(cond_expr))
        return int(keys[0]) % 100

    async def rc_wrapper(cond_expr):
        i = part_of(cond_expr)
        cur.set(i)
        for _ in range(rng.randrange(4)):
            await asyncio.sleep(0)
        try:
            return await real_rc(cond_expr)
        finally:
            for _ in range(rng.randrange(3)):
                await asyncio.sleep(0)
            events.append({"ev": "rc", "i": i})

    async def fc_wrapper(fc_expr):
        i = cur.get()
        for _ in range(rng.randrange(4)):
            await asyncio.sleep(0)
        try:
            return await real_fc(fc_expr)
        finally:
            events.append({"ev": "fc", "i": i})

    de = DataElementFreeText(discriminator="n1", ahb_expression=expr, entered_input=inp, data_element_id="1234")
    ahb.set_cer_values(rc=rc, fc=fc, hints=hints)
    aee.requirement_constraint_evaluation, aee.format_constraint_evaluation = rc_wrapper, fc_wrapper
    try:
        r = await validate_data_element_freetext(de, seg, soll)
        v = r.validation_result
        status, fill = valcheck.STATUS[str(v.requirement_validation)]
        events.append({"ev": "done", "status": status, "fill": fill, "fmt": v.format_validation_fulfilled is True, "msg": bool(v.format_error_message)})
    except NotImplementedError:
        events.append({"ev": "done", "status": "ERROR", "fill": "", "fmt": True, "msg": False})
    except BaseException as e:  # pylint:disable=broad-except  # noqa: BLE001
        events.append({"ev": "done", "status": f"EXC {type(e).__name__}", "fill": "", "fmt": True, "msg": False})
    finally:
        aee.requirement_constraint_evaluation, aee.format_constraint_evaluation = real_rc, real_fc
    # bare parts are not evaluated by the code (constant result): the model's EvalRc / EvalFc for them are silent steps, logged here so that Select is enabled
    for i, p in enumerate(parts, start=1):
        if p["bare"]:
            events.insert(len(events) - 1, {"ev": "rc", "i": i})
            events.insert(len(events) - 1, {"ev": "fc", "i": i})
    return {"id": tid, "expr": expr, "parts": parts, "inp": "text" if inp else "none", "seg": seg_name, "soll": soll, "events": events}


def trace_conformance(work: Work, n=1500, sd=0, max_parts=4):
    import ahb
    from common import validate_traces
    ahb.configure()
    rng = random.Random(1000 + sd)

    async def go():
        return [await _record_run(max_parts, rng, tid) for tid in range(1, n + 1)]
    traces = asyncio.run(go())
    orders = {tuple((e["ev"], e["i"]) for e in t["events"][:-1]) for t in traces}
    interleaved = sum(1 for t in traces if any(a["ev"] == "rc" and b["ev"] == "rc" for a, b in zip(t["events"], t["events"][1:])))
    # binding demonstration: corrupted copies of recorded runs must be refused (wrong format verdict; format before requirement; one event dropped; wrong status)
    import copy
    corrupted = []
    for t in traces:
        if len(corrupted) >= 40:
            break
        ev = t["events"]
        if ev[-1]["status"] in ("ERROR",) or ev[-1]["status"].startswith("EXC"):
            continue
        c1 = copy.deepcopy(t); c1["id"] = 900000 + 4 * t["id"]; c1["events"][-1]["fmt"] = not ev[-1]["fmt"]; c1["what"] = "format verdict flipped"
        c2 = copy.deepcopy(t); c2["id"] = 900001 + 4 * t["id"]; c2["what"] = "format before requirement"
        k = next(j for j, e in enumerate(ev) if e["ev"] == "fc")
        kr = next(j for j, e in enumerate(ev) if e["ev"] == "rc" and e["i"] == ev[k]["i"])
        c2["events"][k], c2["events"][kr] = c2["events"][kr], c2["events"][k]
        c3 = copy.deepcopy(t); c3["id"] = 900002 + 4 * t["id"]; del c3["events"][0]; c3["what"] = "first event dropped"
        c4 = copy.deepcopy(t); c4["id"] = 900003 + 4 * t["id"]; c4["what"] = "status changed"
        c4["events"][-1]["status"] = {"REQUIRED": "OPTIONAL", "OPTIONAL": "FORBIDDEN", "FORBIDDEN": "REQUIRED"}[ev[-1]["status"]]
        corrupted += [c1, c2, c3, c4]
    res, accepted, diag = validate_traces("DataElementTrace", "DataElementTrace.cfg", traces + corrupted, work, tag="de-tr")
    wrongly_accepted = [c["what"] for c in corrupted if c["id"] in accepted]
    rejected = [t for t in traces if t["id"] not in accepted]
    return {"module": "DataElementTrace.tla", "runs_recorded": len(traces), "accepted_by_tlc": len(accepted), "distinct_completion_orders": len(orders),
            "runs_with_interleaved_parts": interleaved, "tlc_states": res["states"],
            "corrupted_copies": len(corrupted), "corrupted_copies_accepted": wrongly_accepted,
            "rejected": [{"expr": t["expr"], "parts": t["parts"], "inp": t["inp"], "seg": t["seg"], "soll": t["soll"], "events": t["events"],
                          "refused_at_event": diag.get(t["id"], (0, ()))[0]} for t in rejected[:10]], "rejected_count": len(rejected)}
