"""Spec -> code conformance for spec/DataElement.tla (end-to-end composition for one free-text data element): TLC generates every element
(<= MaxParts parts x state x format verdict x input x segment status x flag) together with the documented result; each is rendered as a concrete
AHB expression and handed to validate_data_element_freetext. Every part's abstract (state, format verdict) is first re-established by evaluating the
part's condition expression on its own with the real evaluators (otherwise the element is not a rendering of the model state and is skipped)."""
import asyncio
import random

from common import Work, dump_states, run_tlc

IND_WORDS = {"MUSS": ["Muss", "muss", "M"], "SOLL": ["Soll", "SOLL", "s"], "KANN": ["Kann", "kann", "K"], "PFX": ["X", "O", "U", "x"]}
B2F = {True: "T", False: "F", None: "K"}


def templates(i, st, fc):
    """candidate condition expressions for part i with the abstract (state, format verdict)"""
    k, h, f = i, 500 + i, 900 + i
    if st == "N":
        return [f"[{h}]"] if fc == "none" else [f"[{f}]", f"[{h}][{f}]", f"[{h}]U[{f}]"]
    if fc == "none":
        return [f"[{k}]", f"[{k}]U[{h}]", f"([{k}])"]
    return [f"[{k}][{f}]", f"[{k}]U[{f}]", f"[{k}]U[{h}][{f}]"]


async def own(cond):
    from ahbicht.expressions.format_constraint_expression_evaluation import format_constraint_evaluation
    from ahbicht.expressions.requirement_constraint_expression_evaluation import requirement_constraint_evaluation
    o = await requirement_constraint_evaluation(cond)
    f = await format_constraint_evaluation(o.format_constraints_expression)
    fc = "none" if not o.format_constraints_expression else ("ok" if f.format_constraints_fulfilled else "bad")
    return B2F[o.requirement_constraints_fulfilled], fc, f.error_message


async def check_state(st, sd, idx, acc):
    import ahb
    import valcheck
    from ahbicht.validation.validation import validate_data_element_freetext
    from ahbicht.models.validation_values import RequirementValidationValue as RV
    from maus.models.edifact_components import DataElementFreeText
    parts = list(st["parts"])
    rng = random.Random(sd * 7919 + idx)
    rc, fc, hints = {}, {}, {}
    expr = ""
    for i, p in enumerate(parts, start=1):
        word = rng.choice(IND_WORDS[p["ind"]])
        if p["bare"]:
            expr += word
            continue
        if p["st"] != "N":
            rc[i] = p["st"]
        fc[900 + i] = p["fc"] != "bad"
        hints[500 + i] = ahb.hint_text(500 + i)
        ahb.set_cer_values(rc=rc, fc=fc, hints=hints)
        want_ful = {"F": "T", "N": "T", "U": "F", "K": "K"}[p["st"]]
        cond = None
        cands = templates(i, p["st"], p["fc"])
        rng.shuffle(cands)
        for c in cands:
            try:
                ful, f, _ = await own(c)
            except BaseException:  # noqa: BLE001 - a template the evaluator refuses is simply not a rendering
                continue
            if ful == want_ful and f == p["fc"]:
                cond = c
                break
        if cond is None:
            acc["not_renderable"] += 1
            acc["not_renderable_kinds"].add((p["st"], p["fc"]))
            return
        expr += word + rng.choice(["", " "]) + cond + rng.choice(["", " "])
    expr = expr.rstrip() if parts[-1]["bare"] else expr
    spec = st["out"]
    inp = "abc" if st["inp"] == "text" else rng.choice([None, ""])
    seg = {"NONE": None, "REQUIRED": RV.IS_REQUIRED, "OPTIONAL": RV.IS_OPTIONAL}[st["seg"]]
    de = DataElementFreeText(discriminator="n1", ahb_expression=expr, entered_input=inp, data_element_id="1234")
    ahb.set_cer_values(rc=rc, fc=fc, hints=hints)
    acc["elements"] += 1
    case = {"expr": expr, "rc": rc, "fc": fc, "input": inp, "segment": st["seg"], "soll_is_required": st["soll"], "spec": dict(spec)}
    try:
        r = await validate_data_element_freetext(de, seg, st["soll"])
    except NotImplementedError:
        if spec["status"] != "ERROR":
            acc["deviations"].append(("raised NotImplementedError", case))
        else:
            acc["agree"] += 1
        return
    except BaseException as e:  # pylint:disable=broad-except  # noqa: BLE001
        acc["deviations"].append((f"raised {type(e).__name__}: {str(e)[:100]}", case))
        return
    v = r.validation_result
    got = valcheck.STATUS[str(v.requirement_validation)] + (v.format_validation_fulfilled, bool(v.format_error_message))
    exp = (spec["status"], spec["fill"], spec["fmt"], spec["msg"])
    if got != exp:
        acc["deviations"].append((f"(status, suffix, format ok, message present) = {got}, DataElement.tla gives {exp}", case))
    else:
        acc["agree"] += 1


def conformance(work: Work, max_parts=2, sd=0, stride=1):
    import ahb
    ahb.configure()
    mc = run_tlc("DataElement", "DataElement_mc.cfg", work, coverage=True)         # the staged machine incl. every gather order, all invariants
    cfg = work.path("DataElement_gen.cfg")
    cfg.write_text(_gen_cfg(max_parts))
    dump = work.path("dataelement.dump")
    t = run_tlc("DataElement", str(cfg), work, dump=dump)
    acc = {"elements": 0, "agree": 0, "not_renderable": 0, "not_renderable_kinds": set(), "deviations": []}

    async def go():
        for idx, st in enumerate(dump_states(dump)):
            if st["stage"] != "done" or idx % stride:
                continue
            await check_state(st, sd, idx, acc)
    asyncio.run(go())
    untaken = [ln.strip() for ln in mc["out"].splitlines() if ln.startswith("<") and ": 0:0" in ln]
    return {"module": "DataElement.tla", "machine_states": mc["states"], "generator_states": t["states"], "actions_never_taken": untaken,
            "elements_replayed": acc["elements"], "agree": acc["agree"], "not_renderable": acc["not_renderable"],
            "not_renderable_kinds": sorted(acc["not_renderable_kinds"]),
            "deviations": [{"what": w, "case": c} for w, c in acc["deviations"][:20]], "deviation_count": len(acc["deviations"])}


def _gen_cfg(max_parts):
    from common import SPEC
    return (SPEC / "DataElement_gen.cfg").read_text().replace("MaxParts = 3", f"MaxParts = {max_parts}")
